//! The hand-driven bevy world shared by C18 and C19.

use bevy::ecs::event::ManualEventReader;
use bevy::prelude::*;
use bevy::utils::{Duration, Instant};
use bevy_mina::prelude::*;
use mina::prelude::*;
use mina_verif::util::J;

#[derive(Animate, Component, Clone, Debug, Default, PartialEq)]
pub struct Cv {
    pub x: f32,
    pub y: f32,
    pub n: u8,
}

#[derive(Animate, Component, Clone, Debug, Default, PartialEq)]
pub struct Dv {
    pub z: f32,
}

pub trait Comp: Component + Clone + std::fmt::Debug + PartialEq {
    fn bits(&self) -> Vec<u64>;
}
impl Comp for Cv {
    fn bits(&self) -> Vec<u64> {
        vec![self.x.to_bits() as u64, self.y.to_bits() as u64, self.n as u64]
    }
}
impl Comp for Dv {
    fn bits(&self) -> Vec<u64> {
        vec![self.z.to_bits() as u64]
    }
}
pub fn same<T: Comp>(a: &T, b: &T) -> bool {
    a.bits() == b.bits() || a == b
}

#[derive(Clone, Copy, Debug, Default, PartialEq, Eq, Hash)]
pub enum Key {
    #[default]
    Idle,
    Go,
    Done,
    NoTl,
}
pub const KEYS: [Key; 4] = [Key::Idle, Key::Go, Key::Done, Key::NoTl];

/// Description of one pool timeline (all values on the dyadic grid so that f32 comparisons of
/// positions against delay / total are exact).
#[derive(Clone, Debug)]
pub struct TlDesc {
    pub delay: f32,
    pub cycle: f32,
    pub repeat: Repeat,
    pub reverse: bool,
    pub variant: u32,
}

impl TlDesc {
    pub fn total(&self) -> f64 {
        match self.repeat {
            Repeat::None => self.delay as f64 + self.cycle as f64,
            Repeat::Times(n) => self.delay as f64 + self.cycle as f64 * (n as f64 + 1.0),
            Repeat::Infinite => f64::INFINITY,
        }
    }
    /// Are cycle or delay off the 1/512 s grid? Then the library's f32 total may be an ulp away from the exact
    /// one, and at the f32 instant of the total itself the position computed by `time % cycle` is the start of a
    /// further cycle (the end-instant artefact of DESIGN §9.8): the end clauses carry a band of two ulp.
    pub fn off_grid(&self) -> bool {
        (self.cycle * 512.0).fract() != 0.0 || (self.delay * 512.0).fract() != 0.0
    }
    /// Half-width of the band around the total in which the end clauses are not demanded (0 on the grid).
    pub fn end_band(&self) -> f64 {
        if self.off_grid() && self.total().is_finite() {
            2.0 * mina_verif::util::ulp32(self.total() as f32) as f64
        } else {
            0.0
        }
    }
    pub fn json(&self) -> J {
        J::obj(vec![
            ("delay", J::F(self.delay as f64)),
            ("cycle", J::F(self.cycle as f64)),
            ("repeat", J::s(format!("{:?}", self.repeat))),
            ("reverse", J::B(self.reverse)),
            ("keyframe_variant", J::U(self.variant as u64)),
        ])
    }
    pub fn kind(&self) -> String {
        format!(
            "{}{}{}",
            match self.repeat {
                Repeat::None => "once",
                Repeat::Times(_) => "times",
                Repeat::Infinite => "inf",
            },
            if self.reverse { "+rev" } else { "" },
            if self.delay > 0.0 { "+delay" } else { "" }
        )
    }
    pub fn build_cv(&self) -> CvTimeline {
        let e = [Easing::Linear, Easing::OutQuad, Easing::InOutCubic, Easing::InBack][(self.variant % 4) as usize].clone();
        let mut b = Cv::timeline()
            .duration_seconds(self.cycle)
            .delay_seconds(self.delay)
            .repeat(self.repeat)
            .reverse(self.reverse)
            .default_easing(e);
        match self.variant % 3 {
            0 => {
                b = b.keyframe(Cv::keyframe(0.0).x(0.0).y(50.0).n(10)).keyframe(Cv::keyframe(1.0).x(100.0).y(-50.0).n(200));
            }
            1 => {
                // no 0 % keyframe, sparse
                b = b.keyframe(Cv::keyframe(0.25).x(40.0)).keyframe(Cv::keyframe(0.5).y(7.0).n(90)).keyframe(Cv::keyframe(1.0).x(-20.0).y(9.0));
            }
            _ => {
                b = b.keyframe(Cv::keyframe(0.0).x(5.0)).keyframe(Cv::keyframe(0.75).x(95.0).n(33).easing(Easing::InSine));
            }
        }
        b.build()
    }
    pub fn build_dv(&self) -> DvTimeline {
        Dv::timeline()
            .duration_seconds(self.cycle)
            .delay_seconds(self.delay)
            .repeat(self.repeat)
            .reverse(self.reverse)
            .keyframe(Dv::keyframe(0.0).z(1.0))
            .keyframe(Dv::keyframe(1.0).z(9.0))
            .build()
    }
}

pub fn pool() -> Vec<TlDesc> {
    let mut v = Vec::new();
    let mut variant = 0;
    for delay in [0.0f32, 0.25, 1.0] {
        for cycle in [0.5f32, 1.0] {
            for repeat in [Repeat::None, Repeat::Times(2), Repeat::Infinite] {
                for reverse in [false, true] {
                    v.push(TlDesc { delay, cycle, repeat, reverse, variant });
                    variant += 1;
                }
            }
        }
    }
    v.push(TlDesc { delay: 0.0, cycle: 0.125, repeat: Repeat::Times(0), reverse: false, variant: 1 });
    v.push(TlDesc { delay: 7.5, cycle: 8.0, repeat: Repeat::None, reverse: false, variant: 0 });
    // off the dyadic grid: the f32 total `delay + cycle x (repeats+1)` is not exact and not a multiple of the cycle
    // (see `TlDesc::off_grid`: decisions within two ulp of the total are not demanded for these)
    v.push(TlDesc { delay: 0.0, cycle: 0.1, repeat: Repeat::Times(2), reverse: false, variant: 0 });
    v.push(TlDesc { delay: 0.25, cycle: 0.3, repeat: Repeat::Times(1), reverse: false, variant: 1 });
    v.push(TlDesc { delay: 0.0, cycle: 0.7, repeat: Repeat::Times(2), reverse: true, variant: 2 });
    v
}

pub const DELTAS: [Duration; 4] = [
    Duration::ZERO,
    Duration::from_nanos(1_953_125), // 1/512 s
    Duration::from_millis(125),
    Duration::from_secs(64),
];

pub fn rank(s: AnimationState) -> u8 {
    match s {
        AnimationState::None => 0,
        AnimationState::Waiting => 1,
        AnimationState::Playing => 2,
        AnimationState::Ended => 3,
    }
}

pub struct Sim {
    pub app: App,
    pub now: Instant,
    reader: ManualEventReader<AnimationStateChanged>,
}

impl Sim {
    /// `order` selects one of the legitimate registration orders of plugins / key systems.
    pub fn new(order: u8) -> Sim {
        Self::with_executor(order, false)
    }

    /// `multi_threaded = false` switches every schedule of the main loop to bevy's single-threaded
    /// executor (one legitimate, deterministic schedule per registration order; ~10x faster because
    /// the global task pool is not contended by the 16 monitor workers). `true` keeps bevy's default
    /// multi-threaded executor, where unordered systems really run in varying orders.
    pub fn with_executor(order: u8, multi_threaded: bool) -> Sim {
        Self::build(order, multi_threaded, 0)
    }

    /// Like `with_executor`, but the key type is registered for *both* animated component types (`dv_key` = 1: for
    /// `Dv` first, 2: for `Cv` first) — one key type shared by selectors of two component types.
    pub fn with_shared_key(order: u8, multi_threaded: bool, dv_key: u8) -> Sim {
        Self::build(order, multi_threaded, dv_key)
    }

    fn build(order: u8, multi_threaded: bool, dv_key: u8) -> Sim {
        let mut app = App::new();
        let mut time = Time::default();
        let start = Instant::now();
        time.update_with_instant(start); // prime the clock: the next update has a real delta
        app.insert_resource(time);
        match order % 4 {
            0 | 1 if dv_key != 0 => {
                if order % 4 == 0 {
                    app.add_plugins(AnimationPlugin::<Cv>::new()).add_plugins(AnimationPlugin::<Dv>::new());
                } else {
                    app.add_plugins(AnimationPlugin::<Dv>::new()).add_plugins(AnimationPlugin::<Cv>::new());
                }
                if dv_key == 1 {
                    app.register_animation_key::<Dv, Key>();
                    app.register_animation_key::<Cv, Key>();
                } else {
                    app.register_animation_key::<Cv, Key>();
                    app.register_animation_key::<Dv, Key>();
                }
            }
            0 => {
                app.add_plugins(AnimationPlugin::<Cv>::new()).add_plugins(AnimationPlugin::<Dv>::new());
                app.register_animation_key::<Cv, Key>();
            }
            1 => {
                app.add_plugins(AnimationPlugin::<Dv>::new()).add_plugins(AnimationPlugin::<Cv>::new());
                app.register_animation_key::<Cv, Key>();
            }
            2 => {
                app.add_plugins(AnimationPlugin::<Cv>::new());
                app.register_animation_key::<Cv, Key>();
                app.add_plugins(AnimationPlugin::<Dv>::new());
            }
            _ => {
                app.add_plugins(AnimationPlugin::<Dv>::new());
                app.register_animation_key::<Cv, Key>();
                app.add_plugins(AnimationPlugin::<Cv>::new());
            }
        }
        if !multi_threaded {
            use bevy::ecs::schedule::ExecutorKind;
            app.edit_schedule(First, |s| { s.set_executor_kind(ExecutorKind::SingleThreaded); });
            app.edit_schedule(PreUpdate, |s| { s.set_executor_kind(ExecutorKind::SingleThreaded); });
            app.edit_schedule(StateTransition, |s| { s.set_executor_kind(ExecutorKind::SingleThreaded); });
            app.edit_schedule(Update, |s| { s.set_executor_kind(ExecutorKind::SingleThreaded); });
            app.edit_schedule(PostUpdate, |s| { s.set_executor_kind(ExecutorKind::SingleThreaded); });
            app.edit_schedule(Last, |s| { s.set_executor_kind(ExecutorKind::SingleThreaded); });
        }
        // bystanders: other animated entities that are always present and keep producing state changes
        // and Ended events of their own, so that any cross-entity leakage (shared state, events carrying
        // the wrong entity, a chain reacting to another entity's event) disturbs the monitored entity
        {
            let slow = TlDesc { delay: 0.0, cycle: 1.0, repeat: Repeat::Infinite, reverse: true, variant: 0 };
            let quick = TlDesc { delay: 0.0, cycle: 0.125, repeat: Repeat::None, reverse: false, variant: 1 };
            let quick2 = TlDesc { delay: 0.125, cycle: 0.125, repeat: Repeat::Times(1), reverse: false, variant: 2 };
            app.world.spawn((
                Cv::default(),
                Animator::<Cv>::with_timeline(slow.build_cv()),
                Dv::default(),
                Animator::<Dv>::with_timeline(quick2.build_dv()),
            ));
            let mut tls: bevy::utils::HashMap<Key, Box<dyn SafeTimeline<Target = Cv>>> = bevy::utils::HashMap::new();
            tls.insert(Key::Go, Box::new(quick.build_cv()));
            tls.insert(Key::Done, Box::new(quick2.build_cv()));
            app.world.spawn((
                Cv::default(),
                Animator::<Cv>::new(),
                AnimationSelector::<Key, Cv>::new(tls, Key::Go),
                AnimationChainBuilder::<Key>::new().add(Key::Go, Key::Done).add(Key::Done, Key::Go).build(),
            ));
        }
        // settle: build schedules, drain nothing
        app.update();
        Sim { app, now: start, reader: ManualEventReader::default() }
    }

    /// Advances the clock by `dt` and runs one `App::update()`. Returns the delta the systems saw and
    /// the events sent during this frame.
    pub fn frame(&mut self, dt: Duration) -> (Duration, Vec<(Entity, AnimationState)>) {
        self.now += dt;
        {
            let mut time = self.app.world.resource_mut::<Time>();
            time.update_with_instant(self.now);
        }
        let seen = self.app.world.resource::<Time>().delta();
        // discard anything sent before this frame
        {
            let events = self.app.world.resource::<Events<AnimationStateChanged>>();
            for _ in self.reader.iter(events) {}
        }
        self.app.update();
        let events = self.app.world.resource::<Events<AnimationStateChanged>>();
        let evs = self.reader.iter(events).map(|e| (e.entity, e.state)).collect();
        (seen, evs)
    }

    pub fn anim<T: Comp>(&self, e: Entity) -> (AnimationState, Duration, bool) {
        let a = self.app.world.get::<Animator<T>>(e).expect("animator");
        (a.state(), a.timeline_position, a.enabled)
    }
    pub fn comp<T: Comp>(&self, e: Entity) -> T {
        self.app.world.get::<T>(e).expect("component").clone()
    }
}

pub fn state_name(s: AnimationState) -> &'static str {
    match s {
        AnimationState::None => "None",
        AnimationState::Waiting => "Waiting",
        AnimationState::Playing => "Playing",
        AnimationState::Ended => "Ended",
    }
}
