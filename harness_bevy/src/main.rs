//! `mvb <C18|C19> [--tier T] [--seed N] [--replay F]` — bevy plugin monitors.
//!
//! A real `App` with `AnimationPlugin` (no `TimePlugin`); the `Time` resource is driven by hand
//! (`update_with_instant(last + dt)` before every `App::update()`), so frame schedules of any shape
//! (zero-length frames, hitches longer than the whole animation) are reproducible. After every
//! frame the monitors read `Animator::{state, timeline_position}`, the target component, the
//! selector key and the `AnimationStateChanged` events, and check the trace invariants of
//! DESIGN §4 C18 / C19.

mod c18;
mod c19;
mod sim;

use mina_verif::util::{self, Acc, Run, J};

fn main() {
    let args: Vec<String> = std::env::args().collect();
    if args.len() < 2 {
        eprintln!("usage: mvb <C18|C19> [--tier quick|thorough] [--seed N] [--replay FILE]");
        std::process::exit(2);
    }
    let id = args[1].clone();
    let mut tier = std::env::var("VERIF_TIER").unwrap_or_else(|_| "quick".into());
    let mut seed: u64 = std::env::var("VERIF_SEED").ok().and_then(|s| s.parse().ok()).unwrap_or(1);
    let mut replay = None;
    let mut i = 2;
    while i < args.len() {
        match args[i].as_str() {
            "--tier" => {
                tier = args[i + 1].clone();
                i += 1;
            }
            "--seed" => {
                seed = args[i + 1].parse().expect("seed");
                i += 1;
            }
            "--replay" => {
                let t = std::fs::read_to_string(&args[i + 1]).expect("read replay");
                let j = J::parse(&t).expect("parse replay");
                if let Some(s) = j.get("seed").and_then(|s| s.as_u64()) {
                    seed = s;
                }
                if let Some(t) = j.get("tier").and_then(|s| s.as_str()) {
                    tier = t.to_string();
                }
                replay = Some(j);
                i += 1;
            }
            _ => {}
        }
        i += 1;
    }
    if tier != "quick" && tier != "thorough" {
        tier = "quick".into();
    }
    let mut run = Run {
        id: id.clone(),
        tier,
        seed,
        start: std::time::Instant::now(),
        acc: Acc::new(),
        rule: String::new(),
        assumptions: vec![],
        exhaustive: None,
        extra: vec![],
        min_sigs: 2,
        replay,
        inconclusive: vec![],
    };
    util::install_panic_hook();
    match id.as_str() {
        "C18" => c18::run(&mut run),
        "C19" => c19::run(&mut run),
        _ => {
            eprintln!("unknown check {id}");
            std::process::exit(2);
        }
    }
    std::process::exit(run.finish());
}
