//! C18 — bevy `Animator`: time is conserved and the target lands on the final values.

use crate::sim::*;
use bevy::prelude::*;
use bevy::utils::Duration;
use bevy_mina::prelude::*;
use mina::Repeat;
use mina_verif::util::*;

#[derive(Clone, Copy, Debug, PartialEq)]
pub enum Op {
    Nop,
    Disable,
    Enable,
    Reset,
    /// set_timeline(j) without reset ("hot swap", documented as intentional)
    Hot(usize),
    /// set_timeline(j) followed by reset()
    SwapReset(usize),
}

impl Op {
    fn name(&self) -> String {
        match self {
            Op::Nop => "-".into(),
            Op::Disable => "enabled=false".into(),
            Op::Enable => "enabled=true".into(),
            Op::Reset => "reset()".into(),
            Op::Hot(j) => format!("set_timeline(pool[{j}])"),
            Op::SwapReset(j) => format!("set_timeline(pool[{j}]);reset()"),
        }
    }
}

#[derive(Clone, Debug)]
pub struct Snap<T> {
    pub state: AnimationState,
    pub pos: Duration,
    pub enabled: bool,
    pub comp: T,
}

pub fn snap<T: Comp>(sim: &Sim, e: Entity) -> Snap<T> {
    let (state, pos, enabled) = sim.anim::<T>(e);
    Snap { state, pos, enabled, comp: sim.comp::<T>(e) }
}

/// Per-animator monitor of the C18 trace invariants.
pub struct AMon<T: Comp> {
    pub twin: Option<Box<dyn SafeTimeline<Target = T>>>,
    pub desc: Option<TlDesc>,
    /// false after a hot set_timeline that happened while the animator was already Ended, until the next
    /// reset: the stale `Ended` status is not judged against the new timeline (invariants 5, 6)
    pub run_valid: bool,
    pub ended_in_run: u32,
}

impl<T: Comp> AMon<T> {
    pub fn terminal_ok(&self, comp: &T) -> bool {
        let (Some(twin), Some(d)) = (&self.twin, &self.desc) else { return true };
        if !d.total().is_finite() {
            return true;
        }
        let mut t = comp.clone();
        twin.update(&mut t, (d.total() + 1000.0) as f32);
        same(&t, comp)
    }

    /// Checks one frame; returns the event this animator must have sent (if any).
    pub fn frame(&mut self, pre: &Snap<T>, post: &Snap<T>, delta: Duration) -> Result<Option<AnimationState>, (String, String)> {
        let err = |k: &str, m: String| Err((k.to_string(), m));
        if !pre.enabled {
            if post.state != pre.state || post.pos != pre.pos || !same(&post.comp, &pre.comp) {
                return err("disabled-changes", format!("disabled animator changed: state {:?}->{:?}, position {:?}->{:?}, component {:?}->{:?}", pre.state, post.state, pre.pos, post.pos, pre.comp, post.comp));
            }
            return Ok(None);
        }
        let Some(twin) = &self.twin else {
            if post.state != AnimationState::None || post.pos != pre.pos || !same(&post.comp, &pre.comp) {
                return err("no-timeline", format!("animator without timeline: state {:?}, position {:?}->{:?}", post.state, pre.pos, post.pos));
            }
            return Ok(if pre.state != AnimationState::None { Some(AnimationState::None) } else { None });
        };
        let d = self.desc.as_ref().unwrap();
        // 2. time is conserved
        let grew = post.pos.checked_sub(pre.pos);
        let want = if post.state != AnimationState::Ended { delta } else { Duration::ZERO };
        if grew != Some(want) {
            return err("time-not-conserved", format!("position went {:?} -> {:?} in a frame of {:?} ending in state {:?} (expected growth {:?})", pre.pos, post.pos, delta, post.state, want));
        }
        // 3. forward only
        if rank(post.state) < rank(pre.state) {
            return err("state-backwards", format!("state moved backwards {:?} -> {:?}", pre.state, post.state));
        }
        // The position is a `Duration`; what the timeline and the state tests see is an f32 reading of it. The
        // library's `as_secs_f32` (seconds + nanos/1e9, two roundings) and the correctly rounded reading can
        // differ by an ulp (e.g. at 9/64 s); both, and anything between them, are readings "to float rounding".
        // A clause is demanded only where all readings agree.
        let readings = readings(pre.pos);
        let (p_min, p_max) = (readings[0] as f64, *readings.last().unwrap() as f64);
        let p = pre.pos.as_secs_f32() as f64;
        // off-grid timelines: within two ulp of the total nothing is demanded of the end clauses (DESIGN §9.8)
        let band = d.end_band();
        let in_band = band > 0.0 && (p_min - d.total()).abs().min((p_max - d.total()).abs()) <= band;
        // After a hot set_timeline (documented as intentional) the state is carried over. Everything that
        // *happens after the swap* is still judged against the new timeline; only an `Ended` status that
        // was reached under the replaced timeline is stale and not judged (`run_valid == false`).
        if self.run_valid || pre.state != AnimationState::Ended {
            // 4. Waiting only before the delay
            if post.state == AnimationState::Waiting && !(p_min < d.delay as f64) {
                return err("waiting-after-delay", format!("Waiting at position {p} although the delay is {}", d.delay));
            }
            // 5. Ended exactly when the position has reached the total
            let total = d.total();
            if post.state == AnimationState::Ended && pre.state != AnimationState::Ended && p_max < total - band {
                return err("ended-early", format!("became Ended at position {p}, total duration {total}"));
            }
            if p_min >= total + band && post.state != AnimationState::Ended {
                return err("ended-late", format!("position {p} reached the total {total} but the state is {:?} at the end of the frame", post.state));
            }
            if total.is_infinite() && post.state == AnimationState::Ended {
                return err("ended-infinite", "Ended for an infinitely repeating timeline".to_string());
            }
            // 6. Ended => terminal values
            if post.state == AnimationState::Ended && (self.run_valid || pre.state != AnimationState::Ended) && !in_band && !self.terminal_ok(&post.comp) {
                let mut t = post.comp.clone();
                twin.update(&mut t, (total + 1000.0) as f32);
                return err("ended-not-terminal", format!("state is Ended but the component is {:?}; the timeline's terminal values are {:?} (entered from {:?})", post.comp, t, pre.state));
            }
        }
        // 7. while Playing the component is the timeline at a position at most one frame old
        if pre.state == AnimationState::Playing {
            let mut t = pre.comp.clone();
            twin.update(&mut t, pre.pos.as_secs_f32());
            let any = same(&t, &post.comp)
                || readings.iter().any(|r| {
                    let mut u = pre.comp.clone();
                    twin.update(&mut u, *r);
                    same(&u, &post.comp)
                });
            if !any {
                return err("playing-values", format!("Playing at position {:?}: component {:?}, timeline evaluated there gives {:?}", pre.pos, post.comp, t));
            }
        } else if !same(&post.comp, &pre.comp) {
            // not Playing at the start of the frame: the component may only be written to land on the
            // terminal values when the frame ends in Ended
            let landed = post.state == AnimationState::Ended && pre.state != AnimationState::Ended && (in_band || self.terminal_ok(&post.comp));
            if !landed {
                return err("written-while-not-playing", format!("component changed {:?} -> {:?} in a frame that started in state {:?}", pre.comp, post.comp, pre.state));
            }
        }
        // 8. events
        if post.state != pre.state {
            if post.state == AnimationState::Ended {
                self.ended_in_run += 1;
                if self.ended_in_run > 1 {
                    return err("ended-twice", "more than one transition to Ended in one run".to_string());
                }
            }
            Ok(Some(post.state))
        } else {
            Ok(None)
        }
    }

    pub fn on_reset(&mut self) {
        self.run_valid = true;
        self.ended_in_run = 0;
    }
}

/// The f32 readings of a position that count as "the position, to float rounding": from the smaller to the
/// larger of `as_secs_f32()` and the correctly rounded value (usually one and the same number).
pub fn readings(pos: Duration) -> Vec<f32> {
    let (a, b) = (pos.as_secs_f32(), pos.as_secs_f64() as f32);
    let (lo, hi) = (a.min(b), a.max(b));
    let mut v = vec![lo];
    let mut x = lo;
    while x < hi && v.len() < 8 {
        x = f32::from_bits(x.to_bits() + 1);
        v.push(x);
    }
    v
}

pub fn events_match(expected: &[AnimationState], observed: &[AnimationState]) -> bool {
    let mut a: Vec<u8> = expected.iter().map(|s| rank(*s)).collect();
    let mut b: Vec<u8> = observed.iter().map(|s| rank(*s)).collect();
    a.sort();
    b.sort();
    a == b
}

const STREAM_DELTAS: u64 = 1;
const STREAM_OPS: u64 = 2;
const STREAM_RANDOM: u64 = 3;
const STREAM_LAND: u64 = 4;

fn run_history(sim: &mut Sim, pool: &[TlDesc], tl0: usize, two: bool, steps: &[(Op, Duration)], acc: &mut Acc, stream: u64, index: u64, verbose: bool) {
    let init = Cv { x: 7.0, y: -3.0, n: 42 };
    // a fresh animator comes from any of the public constructors; `as_disabled` keeps it from starting
    let start_disabled = index % 7 == 6;
    let fresh = {
        let a = match index % 4 {
            0 | 1 => Animator::<Cv>::with_timeline(pool[tl0].build_cv()),
            2 => {
                let mut a = Animator::<Cv>::new();
                a.set_timeline(pool[tl0].build_cv());
                a
            }
            _ => {
                let mut a = Animator::<Cv>::default();
                a.set_timeline(pool[tl0].build_cv());
                a
            }
        };
        if start_disabled { a.as_disabled() } else { a }
    };
    let e = sim.app.world.spawn((init.clone(), fresh)).id();
    let dv_desc = TlDesc { delay: 0.125, cycle: 0.25, repeat: Repeat::Times(1), reverse: false, variant: 0 };
    if two {
        sim.app.world.entity_mut(e).insert((Dv { z: 0.5 }, Animator::<Dv>::with_timeline(dv_desc.build_dv())));
    }
    let mut mon = AMon::<Cv> { twin: Some(Box::new(pool[tl0].build_cv())), desc: Some(pool[tl0].clone()), run_valid: true, ended_in_run: 0 };
    let mut mon2 = AMon::<Dv> { twin: Some(Box::new(dv_desc.build_dv())), desc: Some(dv_desc.clone()), run_valid: true, ended_in_run: 0 };
    let case = |k: usize, what: &str| {
        case_json(stream, index, vec![
            ("initial_timeline", pool[tl0].json()), ("two_animated_components", J::B(two)),
            ("steps", J::A(steps.iter().map(|(o, d)| J::s(format!("{} ; frame {:?}", o.name(), d))).collect())),
            ("failing_frame", J::U(k as u64)), ("invariant", J::s(what)),
        ])
    };
    let mut last_post: Option<AnimationState> = Some(AnimationState::None);
    let mut ok = true;
    // `enabled` is only ever changed by the monitor's own operations (and by `as_disabled` at construction)
    let mut model_enabled = !start_disabled;
    {
        // the run the property speaks of starts at a fresh animator: state None, position zero, enabled
        // unless built with `as_disabled`
        let f = snap::<Cv>(sim, e);
        acc.eval();
        if f.state != AnimationState::None || f.pos != Duration::ZERO || f.enabled != model_enabled {
            acc.violation(
                "c18:fresh-animator",
                format!(
                    "a freshly constructed animator (constructor variant {}, as_disabled: {start_disabled}) has state {:?}, position {:?}, enabled {}; expected None, 0, {}",
                    index % 4, f.state, f.pos, f.enabled, model_enabled
                ),
                case(0, "3 (a run starts in None at position zero; only the user toggles `enabled`)"),
            );
            sim.app.world.despawn(e);
            return;
        }
    }
    for (k, (op, di)) in steps.iter().enumerate() {
        // operations between frames
        let mut expect_state = last_post;
        match op {
            Op::Disable => model_enabled = false,
            Op::Enable => model_enabled = true,
            _ => {}
        }
        {
            let mut a = sim.app.world.get_mut::<Animator<Cv>>(e).unwrap();
            match op {
                Op::Nop => {}
                Op::Disable => a.enabled = false,
                Op::Enable => a.enabled = true,
                Op::Reset => {
                    a.reset();
                    mon.on_reset();
                    expect_state = Some(AnimationState::None);
                }
                Op::Hot(j) => {
                    let stale = a.state() == AnimationState::Ended;
                    a.set_timeline(pool[*j].build_cv());
                    mon.twin = Some(Box::new(pool[*j].build_cv()));
                    mon.desc = Some(pool[*j].clone());
                    if stale {
                        mon.run_valid = false;
                    }
                }
                Op::SwapReset(j) => {
                    a.set_timeline(pool[*j].build_cv());
                    a.reset();
                    mon.twin = Some(Box::new(pool[*j].build_cv()));
                    mon.desc = Some(pool[*j].clone());
                    mon.on_reset();
                    expect_state = Some(AnimationState::None);
                }
            }
        }
        let pre = snap::<Cv>(sim, e);
        let pre2 = if two { Some(snap::<Dv>(sim, e)) } else { None };
        if pre.enabled != model_enabled {
            acc.violation("c18:enabled-flag-changed", format!("`enabled` is {} before frame {k} although the last enable/disable operation set it to {} (operation just applied: {})", pre.enabled, model_enabled, op.name()), case(k, "1 (a disabled animator changes nothing; only the user toggles `enabled`)"));
            ok = false;
            break;
        }
        if let Some(s) = expect_state {
            if pre.state != s {
                acc.violation("c18:state-changed-between-frames", format!("state is {:?} before frame {k} but was {:?} after the previous frame/operation", pre.state, s), case(k, "3 (between frames)"));
                ok = false;
                break;
            }
        }
        let (delta, evs) = sim.frame(*di);
        let post = snap::<Cv>(sim, e);
        acc.eval();
        let mine: Vec<AnimationState> = evs.iter().filter(|(en, _)| *en == e).map(|(_, s)| *s).collect();
        let mut expected = Vec::new();
        if verbose {
            println!("  frame {k}: op {} dt {:?} | pre {:?} {:?} {:?} -> post {:?} {:?} {:?} events {:?}", op.name(), delta, pre.state, pre.pos, pre.comp, post.state, post.pos, post.comp, mine);
        }
        match mon.frame(&pre, &post, delta) {
            Ok(ev) => expected.extend(ev),
            Err((key, msg)) => {
                acc.violation(format!("c18:{key}"), format!("frame {k} ({} then a frame of {:?}): {msg}", op.name(), delta), case(k, &key));
                ok = false;
                break;
            }
        }
        if let Some(pre2) = pre2 {
            let post2 = snap::<Dv>(sim, e);
            match mon2.frame(&pre2, &post2, delta) {
                Ok(ev) => expected.extend(ev),
                Err((key, msg)) => {
                    acc.violation(format!("c18:{key}"), format!("second animated component, frame {k}: {msg}"), case(k, &key));
                    ok = false;
                    break;
                }
            }
        }
        if !events_match(&expected, &mine) {
            acc.violation(
                "c18:events",
                format!("frame {k}: state changes {:?} -> {:?} require events {:?} but the frame sent {:?}", pre.state, post.state, expected, mine),
                case(k, "8 (one event per state change carrying the end-of-frame state)"),
            );
            ok = false;
            break;
        }
        acc.count(&format!("frames_{}->{}", state_name(pre.state), state_name(post.state)), 1);
        for ev in &mine {
            acc.count(&format!("events_{}", state_name(*ev)), 1);
        }
        if !pre.enabled {
            acc.count("frames_while_disabled", 1);
        }
        // coverage signature: what kind of frame was this?
        let d = mon.desc.as_ref().unwrap();
        let dclass = if di.is_zero() { "zero" } else if *di <= Duration::from_millis(2) { "tiny" } else if *di < Duration::from_secs(8) { "medium" } else { "hitch" };
        let lands = if post.pos.as_secs_f64() == d.total() { "|lands-on-total" } else if post.pos.as_secs_f32() == d.delay && d.delay > 0.0 { "|lands-on-delay" } else { "" };
        acc.sig(format!("{}|{}->{}|dt={dclass}{lands}|valid={}|op={}", d.kind(), state_name(pre.state), state_name(post.state), mon.run_valid, match op { Op::Nop => "-", Op::Disable => "dis", Op::Enable => "en", Op::Reset => "reset", Op::Hot(_) => "hot", Op::SwapReset(_) => "swap" }));
        last_post = Some(post.state);
    }
    if ok && index % 997 == 0 {
        acc.sample(3, || case(steps.len(), "all invariants held in every frame"));
    }
    sim.app.world.despawn(e);
}

pub fn run(run: &mut Run) {
    let thorough = run.thorough();
    let depth_d = if thorough { 8 } else { 6 };
    let depth_o = if thorough { 5 } else { 4 };
    run.rule = format!(
        "real bevy App with AnimationPlugin and a hand-driven Time resource; timeline pool: delay {{0, 1/4, 1}} x cycle {{1/2, 1}} x \
        repeat {{None, Times(2), Infinite}} x reverse, plus a very short and a long-delayed timeline (38 timelines); ALL frame-delta \
        histories of length {depth_d} over {{0, 1/512 s, 1/8 s, 64 s}} for every pool timeline; ALL (operation, delta) histories of \
        length {depth_o} over operations {{none, disable, enable, reset, hot set_timeline, set_timeline+reset}} on 3 timelines; random \
        histories of 50-300 frames on entities with one and two animated component types under 4 system registration orders; \
        boundary-landing schedules (all triples of frame lengths drawn from {{0, delay, cycle, cycle/2, total, total-delay, total+-1/512 s}} of \
        the timeline and of a hot-swap target, 228 configurations); the \
        trace invariants 1-8 of DESIGN §4 C18 are checked after every frame; non-trivial = a frame of an enabled animator with a \
        timeline; distinct = (timeline kind, state transition of the frame, delta class, run valid?, operation)"
    );
    run.assumptions = vec![
        "bevy 0.11.3 App/Time/Events are trusted; Time::update_with_instant delivers exactly the scheduled delta".into(),
        "after a hot set_timeline without reset (documented as intentional) everything that happens after the swap is judged against the new timeline; only an Ended status reached under the replaced timeline is stale and not judged until the next reset".into(),
    ];
    run.min_sigs = 40;
    let seed = run.seed;
    let rc = run.replay_case();
    let verbose = rc.is_some();
    let pool = pool();
    let n_d = 4u64.pow(depth_d as u32) * pool.len() as u64;
    let ops_alpha: Vec<Op> = vec![Op::Nop, Op::Disable, Op::Enable, Op::Reset, Op::Hot(3), Op::SwapReset(14)];
    let op_tls = [0usize, 9, 20];
    let per = (ops_alpha.len() as u64 * 4).pow(depth_o as u32);
    let n_o = per * op_tls.len() as u64;
    let n_r: u64 = if thorough { 100_000 } else { 3_000 };
    run.extra.push(("delta_histories_exhaustive".into(), J::U(n_d)));
    run.extra.push(("operation_histories_exhaustive".into(), J::U(n_o)));
    run.extra.push(("random_histories".into(), J::U(n_r)));
    run.parallel(|w, nw, acc| {
        let mut sims: Vec<Sim> = (0..4).map(|o| Sim::new(o)).collect();
        let mut mt_sim: Option<Sim> = None;
        for i in my_cases(rc, STREAM_DELTAS, n_d, w, nw) {
            let tl0 = (i % pool.len() as u64) as usize;
            let mut x = i / pool.len() as u64;
            let steps: Vec<(Op, Duration)> = (0..depth_d)
                .map(|_| {
                    let d = (x % 4) as usize;
                    x /= 4;
                    (Op::Nop, DELTAS[d])
                })
                .collect();
            guarded(acc, "c18", STREAM_DELTAS, i, |acc| run_history(&mut sims[(i % 4) as usize], &pool, tl0, false, &steps, acc, STREAM_DELTAS, i, verbose));
        }
        for i in my_cases(rc, STREAM_OPS, n_o, w, nw) {
            let tl0 = op_tls[(i / per) as usize];
            let mut x = i % per;
            let steps: Vec<(Op, Duration)> = (0..depth_o)
                .map(|_| {
                    let k = (x % 24) as usize;
                    x /= 24;
                    (ops_alpha[k / 4], DELTAS[k % 4])
                })
                .collect();
            guarded(acc, "c18", STREAM_OPS, i, |acc| run_history(&mut sims[0], &pool, tl0, false, &steps, acc, STREAM_OPS, i, verbose));
        }
        for i in my_cases(rc, STREAM_RANDOM, n_r, w, nw) {
            let mut r = Rng::derive(seed, STREAM_RANDOM, i);
            let len = 50 + r.usize(251);
            let tl0 = r.usize(pool.len());
            let steps: Vec<(Op, Duration)> = (0..len)
                .map(|_| {
                    let op = match r.below(12) {
                        0 => Op::Disable,
                        1 | 2 => Op::Enable,
                        3 => Op::Reset,
                        4 => Op::Hot(r.usize(pool.len())),
                        5 => Op::SwapReset(r.usize(pool.len())),
                        _ => Op::Nop,
                    };
                    let d = match r.below(12) {
                        0 => DELTAS[0],
                        1 | 2 => DELTAS[1],
                        9 => DELTAS[3],
                        10 => Duration::from_millis(250 * (1 + r.below(8))),
                        11 => Duration::from_nanos(1_953_125 * (1 + r.below(600))),
                        _ => DELTAS[2],
                    };
                    (op, d)
                })
                .collect();
            let two = r.chance(1, 2);
            let o = r.usize(4);
            if i % 4 == 0 {
                let sim = mt_sim.get_or_insert_with(|| Sim::with_executor((w % 4) as u8, true));
                acc.count("histories_on_multi_threaded_executor", 1);
                guarded(acc, "c18", STREAM_RANDOM, i, |acc| run_history(sim, &pool, tl0, two, &steps, acc, STREAM_RANDOM, i, verbose));
            } else {
                guarded(acc, "c18", STREAM_RANDOM, i, |acc| run_history(&mut sims[o], &pool, tl0, two, &steps, acc, STREAM_RANDOM, i, verbose));
            }
        }
    });
    // ---- boundary-landing schedules: frames whose length is exactly the delay, the total, a cycle, half
    // a cycle, total +- 1/512 s ... of the initial timeline and of a hot-swap target, so that the position
    // lands exactly on every comparison boundary of the system (>= vs >), also right after a hot swap.
    let lands: Vec<(usize, Option<usize>)> = {
        let mut v = Vec::new();
        for t in 0..pool.len() {
            v.push((t, None));
            for k in 0..5 {
                v.push((t, Some((t * 7 + k * 11 + 3) % pool.len())));
            }
        }
        v
    };
    let landing_set = |d: &TlDesc| -> Vec<f64> {
        let mut l = vec![0.0, d.delay as f64, d.cycle as f64, d.cycle as f64 / 2.0, 1.0 / 512.0, d.delay as f64 + d.cycle as f64];
        if d.total().is_finite() {
            l.extend_from_slice(&[d.total(), d.total() - d.delay as f64, d.total() + 1.0 / 512.0, (d.total() - 1.0 / 512.0).max(0.0)]);
        }
        l
    };
    let n_l = lands.len() as u64;
    run.extra.push(("boundary_landing_configurations".into(), J::U(n_l)));
    run.parallel(|w, nw, acc| {
        let mut sim = Sim::new((w % 4) as u8);
        // replay: the recorded index encodes (configuration, delta triple)
        let rc_land = rc.and_then(|(s, idx)| if s == STREAM_LAND { Some((STREAM_LAND, idx / 1_000_000)) } else { Some((s, idx)) });
        let only_combo = rc.and_then(|(s, idx)| if s == STREAM_LAND { Some(idx % 1_000_000) } else { None });
        for i in my_cases(rc_land, STREAM_LAND, n_l, w, nw) {
            let (tl0, swap) = lands[i as usize];
            let mut set = landing_set(&pool[tl0]);
            if let Some(j) = swap {
                set.extend(landing_set(&pool[j]));
            }
            set.sort_by(|a, b| a.total_cmp(b));
            set.dedup();
            let n = set.len();
            // all sequences of three landing deltas; the hot swap (if any) happens before the third frame
            for a in 0..n {
                for b in 0..n {
                    for c in 0..n {
                        if let Some(oc) = only_combo {
                            if oc != (a * n * n + b * n + c) as u64 {
                                continue;
                            }
                        }
                        let dur = |x: f64| Duration::from_secs_f64(x);
                        let steps = vec![
                            (Op::Nop, dur(set[a])),
                            (Op::Nop, dur(set[b])),
                            (swap.map(Op::Hot).unwrap_or(Op::Nop), dur(set[c])),
                            (Op::Nop, Duration::ZERO),
                            (Op::Nop, dur(1.0 / 512.0)),
                        ];
                        guarded(acc, "c18", STREAM_LAND, i, |acc| run_history(&mut sim, &pool, tl0, false, &steps, acc, STREAM_LAND, i * 1_000_000 + (a * n * n + b * n + c) as u64, verbose));
                    }
                }
            }
        }
    });
    run.exhaustive = Some(false);
}
