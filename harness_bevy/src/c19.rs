use mina_verif::util::Run;
pub fn run(_run: &mut Run) {}
