//! C19 — bevy selector / chain: key changes blend smoothly and chains advance on end.
//!
//! Online checker of a trace specification with a small set of candidate model states. The
//! systems `chain_animations` and `select_animation` are mutually unordered in mina's
//! registration, and the statement leaves one race open (an explicit key assignment landing between
//! an animation's end and the chain's reaction), so each frame is explained by *some* combination
//! of (system order, race outcome); a frame that no combination explains is a violation.

use crate::c18::{events_match, snap, AMon, Snap};
use crate::sim::*;
#[allow(unused_imports)]
use bevy::prelude::*;
use bevy::utils::{Duration, HashMap};
use bevy_mina::prelude::*;
use mina::prelude::*;
use mina_verif::util::*;

#[derive(Clone, Copy, Debug, PartialEq)]
enum Op {
    Nop,
    Assign(Key),
}

#[derive(Clone, Debug)]
struct Config {
    /// timelines of Idle, Go, Done (NoTl never has one)
    tls: [TlDesc; 3],
    chain: Option<Vec<(Key, Key)>>,
    two: bool,
    dv: TlDesc,
    name: String,
}

fn key_tl(cfg: &Config, k: Key) -> Option<&TlDesc> {
    match k {
        Key::Idle => Some(&cfg.tls[0]),
        Key::Go => Some(&cfg.tls[1]),
        Key::Done => Some(&cfg.tls[2]),
        Key::NoTl => None,
    }
}

fn configs() -> Vec<Config> {
    let t = |delay: f32, cycle: f32, repeat: Repeat, reverse: bool, variant: u32| TlDesc { delay, cycle, repeat, reverse, variant };
    let set_a = [t(0.25, 1.0, Repeat::None, false, 0), t(0.0, 0.125, Repeat::None, false, 1), t(0.125, 0.25, Repeat::Times(1), false, 2)];
    let set_b = [t(0.0, 0.125, Repeat::None, false, 2), t(1.0, 0.5, Repeat::None, true, 0), t(0.0, 1.0, Repeat::Infinite, false, 1)];
    let dv_short = t(0.0, 0.125, Repeat::None, false, 0);
    let dv_long = t(0.0, 64.0, Repeat::Times(3), false, 0);
    // a second animator whose own (non-Ended) state changes fall into the frames in which the governed
    // animator ends: Waiting -> Playing after 1/8 s, then a long run
    let dv_delayed = t(0.125, 64.0, Repeat::None, false, 0);
    let chains: Vec<(&str, Option<Vec<(Key, Key)>>)> = vec![
        ("no-chain", None),
        ("go->done", Some(vec![(Key::Go, Key::Done)])),
        ("reset-after-go", Some(vec![(Key::Go, Key::Idle)])),
        ("cycle", Some(vec![(Key::Go, Key::Done), (Key::Done, Key::Go)])),
        ("selfloop+idle->go", Some(vec![(Key::Go, Key::Go), (Key::Idle, Key::Go)])),
        ("via-notl", Some(vec![(Key::NoTl, Key::Idle), (Key::Done, Key::NoTl), (Key::Idle, Key::Done)])),
    ];
    let mut v = Vec::new();
    for (si, set) in [set_a, set_b].iter().enumerate() {
        for (cn, ch) in &chains {
            for two in [false, true] {
                for (dn, dv) in [("dv-short", &dv_short), ("dv-long", &dv_long), ("dv-delayed", &dv_delayed)] {
                    if !two && dn != "dv-short" {
                        continue;
                    }
                    v.push(Config { tls: set.clone(), chain: ch.clone(), two, dv: dv.clone(), name: format!("set{}|{cn}|{}", ["A", "B"][si], if two { dn } else { "one-component" }) });
                }
            }
        }
    }
    v
}

/// One candidate explanation of the history so far.
struct Cand {
    /// last key the selector acted on
    acted: Option<Key>,
    /// key whose timeline the governed animator holds (None = no timeline)
    play: Option<Key>,
    mon: AMon<Cv>,
    /// the governed animator went to Ended in the previous frame while playing this key
    pending_gov: Option<Key>,
}

impl Cand {
    fn dup(&self) -> Cand {
        Cand {
            acted: self.acted,
            play: self.play,
            mon: AMon { twin: self.mon.twin.clone(), desc: self.mon.desc.clone(), run_valid: self.mon.run_valid, ended_in_run: self.mon.ended_in_run },
            pending_gov: self.pending_gov,
        }
    }
    fn ident(&self, start_bits: &[u64]) -> String {
        format!("{:?}|{:?}|{:?}|{:?}", self.acted, self.play, self.pending_gov, start_bits)
    }
}

const STREAM_EXH: u64 = 1;
const STREAM_RND: u64 = 2;

fn run_history(sim: &mut Sim, cfg: &Config, steps: &[(Op, usize)], acc: &mut Acc, stream: u64, index: u64, verbose: bool) {
    let init = Cv { x: 3.0, y: 11.0, n: 77 };
    let mut tls: HashMap<Key, Box<dyn SafeTimeline<Target = Cv>>> = HashMap::new();
    for k in [Key::Idle, Key::Go, Key::Done] {
        tls.insert(k, Box::new(key_tl(cfg, k).unwrap().build_cv()));
    }
    // construct through the public constructors and through the builders alternately
    // the first key "assignment" is the one given at construction
    let first_key = [Key::Idle, Key::Idle, Key::Go, Key::Done, Key::NoTl][(index % 5) as usize];
    let selector = if index % 2 == 0 {
        AnimationSelector::<Key, Cv>::new(tls, first_key)
    } else {
        drop(tls);
        let mut b = AnimationSelectorBuilder::<Key, Cv>::new();
        for k in [Key::Idle, Key::Go, Key::Done] {
            b = b.add(k, key_tl(cfg, k).unwrap().build_cv());
        }
        b.initial_key(first_key).build()
    };
    let e = sim.app.world.spawn((init.clone(), if index % 3 == 0 { Animator::<Cv>::default() } else { Animator::<Cv>::new() }, selector)).id();
    {
        let f = snap::<Cv>(sim, e);
        let k0 = sim.app.world.get::<AnimationSelector<Key, Cv>>(e).unwrap().timeline_key;
        acc.eval();
        if f.state != AnimationState::None || f.pos != Duration::ZERO || !f.enabled || k0 != first_key {
            acc.violation(
                "c19:fresh-entity",
                format!(
                    "freshly constructed selector/animator: key {:?} (constructed with {:?}), animator state {:?}, position {:?}, enabled {}; expected the given key, None, 0, true",
                    k0, first_key, f.state, f.pos, f.enabled
                ),
                case_json(stream, index, vec![("configuration", J::s(cfg.name.clone())), ("clause", J::s("the key given at construction is the first key; a fresh animator is enabled and at rest"))]),
            );
            sim.app.world.despawn(e);
            return;
        }
    }
    if let Some(ch) = &cfg.chain {
        if ch.len() == 1 && ch[0].1 == Key::default() && index % 2 == 1 {
            sim.app.world.entity_mut(e).insert(AnimationChain::<Key>::reset_after(ch[0].0));
        } else {
            let mut b = AnimationChainBuilder::<Key>::new();
            for (a, c) in ch {
                b = b.add(*a, *c);
            }
            sim.app.world.entity_mut(e).insert(b.build());
        }
    }
    if cfg.two {
        sim.app.world.entity_mut(e).insert((Dv { z: 0.5 }, Animator::<Dv>::with_timeline(cfg.dv.build_dv())));
    }
    let chain_of = |k: Key| -> Option<Key> { cfg.chain.as_ref().and_then(|c| c.iter().find(|(a, _)| *a == k).map(|(_, b)| *b)) };
    let mut mon2 = AMon::<Dv> { twin: Some(Box::new(cfg.dv.build_dv())), desc: Some(cfg.dv.clone()), run_valid: true, ended_in_run: 0 };
    let mut cands: Vec<Cand> = vec![Cand { acted: None, play: None, mon: AMon { twin: None, desc: None, run_valid: true, ended_in_run: 0 }, pending_gov: None }];
    let mut other_ended_prev = false;
    let case = |k: usize, what: &str| {
        case_json(stream, index, vec![
            ("configuration", J::s(cfg.name.clone())),
            ("key_timelines", J::A(cfg.tls.iter().map(|t| t.json()).collect())),
            ("chain", J::s(format!("{:?}", cfg.chain))),
            ("second_animated_component", if cfg.two { cfg.dv.json() } else { J::Null }),
            ("steps", J::A(steps.iter().map(|(o, d)| J::s(format!("{:?} ; frame {:?}", o, DELTAS[*d]))).collect())),
            ("failing_frame", J::U(k as u64)), ("clause", J::s(what)),
        ])
    };
    let mut ok = true;
    for (k, (op, di)) in steps.iter().enumerate() {
        if let Op::Assign(key) = op {
            let mut s = sim.app.world.get_mut::<AnimationSelector<Key, Cv>>(e).unwrap();
            s.timeline_key = *key;
        }
        let key_now = sim.app.world.get::<AnimationSelector<Key, Cv>>(e).unwrap().timeline_key;
        let pre = snap::<Cv>(sim, e);
        let pre2 = if cfg.two { Some(snap::<Dv>(sim, e)) } else { None };
        let (delta, evs) = sim.frame(DELTAS[*di]);
        let post = snap::<Cv>(sim, e);
        let key_post = sim.app.world.get::<AnimationSelector<Key, Cv>>(e).unwrap().timeline_key;
        let mine: Vec<AnimationState> = evs.iter().filter(|(en, _)| *en == e).map(|(_, s)| *s).collect();
        acc.eval();
        // the second animator is an ordinary C18 animator; it also tells us whether "some other
        // animator on the entity ended" in this frame
        let mut expected_other: Vec<AnimationState> = Vec::new();
        let mut other_ended_now = false;
        if let Some(pre2) = &pre2 {
            let post2 = snap::<Dv>(sim, e);
            match mon2.frame(pre2, &post2, delta) {
                Ok(ev) => {
                    other_ended_now = ev == Some(AnimationState::Ended);
                    expected_other.extend(ev);
                }
                Err((key, msg)) => {
                    acc.violation(format!("c19:other-animator:{key}"), format!("second animated component, frame {k}: {msg}"), case(k, &key));
                    ok = false;
                    break;
                }
            }
        }
        // explore the explanations
        let mut next: Vec<Cand> = Vec::new();
        let mut seen: Vec<String> = Vec::new();
        let mut failures: Vec<(bool, String, String)> = Vec::new(); // (key matched?, key, message)
        for c in &cands {
            // what may the chain do to a key `kk` in this frame?
            let outcomes = |kk: Key| -> Vec<Key> {
                match c.pending_gov.and_then(|ke| chain_of(ke).map(|kn| (ke, kn))) {
                    Some((ke, kn)) => {
                        if kk == ke { vec![kn] } else { vec![kk, kn] }
                    }
                    None => vec![kk],
                }
            };
            for order_cs in [true, false] {
                for key1 in outcomes(key_now) {
                    let sel_key = if order_cs { key1 } else { key_now };
                    let happened = c.acted != Some(sel_key);
                    if key_post != key1 {
                        failures.push((false, "key".into(), format!("selector key is {:?} after the frame; explanation (order {}, chain outcome {:?}) requires {:?}", key_post, if order_cs { "chain,select" } else { "select,chain" }, key1, key1)));
                        continue;
                    }
                    let mut n = c.dup();
                    n.pending_gov = None;
                    let res = if happened {
                        n.acted = Some(sel_key);
                        match key_tl(cfg, sel_key) {
                            Some(desc) => {
                                let mut tw = desc.build_cv();
                                tw.start_with(&pre.comp);
                                n.play = Some(sel_key);
                                n.mon = AMon { twin: Some(Box::new(tw)), desc: Some(desc.clone()), run_valid: true, ended_in_run: 0 };
                                // the selector reset the animator before `animate` ran
                                let pre_reset = Snap { state: AnimationState::None, pos: Duration::ZERO, enabled: pre.enabled, comp: pre.comp.clone() };
                                n.mon.frame(&pre_reset, &post, delta)
                            }
                            None => {
                                n.play = None;
                                n.mon = AMon { twin: None, desc: None, run_valid: true, ended_in_run: 0 };
                                if post.state != AnimationState::None || post.pos != Duration::ZERO || !same(&post.comp, &pre.comp) {
                                    Err(("key-without-timeline".to_string(), format!("key {:?} has no timeline: expected state None, position 0 and an untouched component; observed {:?}, {:?}, {:?} -> {:?}", sel_key, post.state, post.pos, pre.comp, post.comp)))
                                } else {
                                    Ok(None)
                                }
                            }
                        }
                    } else {
                        n.mon.frame(&pre, &post, delta)
                    };
                    match res {
                        Err((key, msg)) => failures.push((true, key, format!("[explanation: order {}, selection {}] {msg}", if order_cs { "chain,select" } else { "select,chain" }, if happened { format!("of {:?}", sel_key) } else { "none".into() }))),
                        Ok(ev) => {
                            let mut expected = expected_other.clone();
                            expected.extend(ev);
                            if !events_match(&expected, &mine) {
                                failures.push((true, "events".into(), format!("events {:?} sent, {:?} required", mine, expected)));
                                continue;
                            }
                            if ev == Some(AnimationState::Ended) {
                                n.pending_gov = n.play;
                            }
                            let id = n.ident(&n.mon.twin.as_ref().map(|t| { let mut z = Cv::default(); t.update(&mut z, -1.0); z.bits() }).unwrap_or_default());
                            if !seen.contains(&id) {
                                seen.push(id);
                                next.push(n);
                            }
                        }
                    }
                }
            }
        }
        if verbose {
            println!("  frame {k}: {:?} dt {:?} key {:?}->{:?} | {:?} {:?} {:?} -> {:?} {:?} {:?} events {:?} | explanations {}", op, delta, key_now, key_post, pre.state, pre.pos, pre.comp, post.state, post.pos, post.comp, mine, next.len());
        }
        if next.is_empty() {
            // report the most specific failure: prefer explanations whose key matched
            failures.sort_by_key(|f| !f.0);
            let (matched, key, msg) = failures.first().cloned().unwrap_or((false, "none".into(), "no explanation".into()));
            let unexplained_key = !matched;
            let reason = if unexplained_key {
                let by_other = other_ended_prev && cands.iter().all(|c| c.pending_gov.is_none());
                if key_post != key_now && by_other { "chain-fired-for-other-animator" } else if key_post != key_now { "unexplained-key-change" } else { "chain-did-not-fire" }
            } else {
                key.as_str()
            };
            acc.violation(
                format!("c19:{reason}"),
                format!("frame {k} ({:?}, frame of {:?}, key {:?} before): {msg}", op, delta, key_now),
                case(k, reason),
            );
            ok = false;
            break;
        }
        // what was observed (evidence counters)
        acc.count("frames_observed", 1);
        if key_post != key_now {
            acc.count("chain_reactions_observed (key changed by the chain)", 1);
        }
        if next.iter().any(|n| n.acted != cands[0].acted) {
            acc.count("frames_with_a_selection", 1);
        }
        if next.len() > 1 {
            acc.count("frames_with_more_than_one_surviving_explanation", 1);
        }
        if cands.iter().any(|c| c.pending_gov.is_some()) {
            acc.count("frames_with_a_pending_own_Ended_event", 1);
            if matches!(op, Op::Assign(_)) {
                acc.count("race_frames (explicit assignment between end and chain reaction)", 1);
            }
        }
        if other_ended_prev {
            acc.count("frames_after_the_other_animator_ended", 1);
        }
        for ev in &mine {
            acc.count(&format!("events_{}", state_name(*ev)), 1);
        }
        // coverage
        for n in &next {
            let kind = if n.acted != cands[0].acted || cands.iter().all(|c| c.acted != n.acted) { "selection" } else { "steady" };
            acc.sig(format!("{}|{kind}|{:?}->{:?}|{}->{}|op={}|chain-pending={}|other-ended={}", cfg.name, key_now, key_post, state_name(pre.state), state_name(post.state), matches!(op, Op::Assign(_)), cands.iter().any(|c| c.pending_gov.is_some()), other_ended_prev));
        }
        cands = next;
        other_ended_prev = other_ended_now;
    }
    if ok && index % 4999 == 0 {
        acc.sample(3, || case(steps.len(), "every frame explained by the selector/chain specification"));
    }
    sim.app.world.despawn(e);
}

const STREAM_SHARED: u64 = 3;

/// One key type shared by the selectors of two animated component types (the pattern of the repository's own bevy
/// example): an entity with `AnimationSelector<Key, Cv>` and one with `AnimationSelector<Key, Dv>` (or both on one
/// entity), each with the chain Idle -> Go -> Done over three short finite timelines. Bounded progress, judged per
/// selector: the keys are visited in chain order and within `3 x (frames of one timeline + 2)` frames the key is Done
/// and the governed animator has Ended.
fn shared_key_case(index: u64, acc: &mut Acc) {
    let (order, dv_key, multi, same_entity) = ((index % 2) as u8, 1 + ((index / 2) % 2) as u8, (index / 4) % 4 == 3, (index / 16) % 2 == 1);
    let mut sim = Sim::with_shared_key(order, multi, dv_key);
    let descs = [
        TlDesc { delay: 0.0, cycle: 0.5, repeat: Repeat::None, reverse: false, variant: 0 },
        TlDesc { delay: 0.125, cycle: 0.25, repeat: Repeat::Times(1), reverse: false, variant: 1 },
        TlDesc { delay: 0.0, cycle: 0.5, repeat: Repeat::None, reverse: true, variant: 2 },
    ];
    let mut tc: bevy::utils::HashMap<Key, Box<dyn SafeTimeline<Target = Cv>>> = bevy::utils::HashMap::new();
    let mut td: bevy::utils::HashMap<Key, Box<dyn SafeTimeline<Target = Dv>>> = bevy::utils::HashMap::new();
    for (k, d) in [Key::Idle, Key::Go, Key::Done].iter().zip(descs.iter()) {
        tc.insert(*k, Box::new(d.build_cv()));
        td.insert(*k, Box::new(d.build_dv()));
    }
    let chain = || AnimationChainBuilder::<Key>::new().add(Key::Idle, Key::Go).add(Key::Go, Key::Done).build();
    let (ec, ed) = if same_entity {
        let e = sim.app.world.spawn((Cv::default(), Animator::<Cv>::new(), AnimationSelector::<Key, Cv>::new(tc, Key::Idle), Dv::default(), Animator::<Dv>::new(), AnimationSelector::<Key, Dv>::new(td, Key::Idle), chain())).id();
        (e, e)
    } else {
        let ec = sim.app.world.spawn((Cv::default(), Animator::<Cv>::new(), AnimationSelector::<Key, Cv>::new(tc, Key::Idle), chain())).id();
        let ed = sim.app.world.spawn((Dv::default(), Animator::<Dv>::new(), AnimationSelector::<Key, Dv>::new(td, Key::Idle), chain())).id();
        (ec, ed)
    };
    let dt = Duration::from_secs_f64(if index % 3 == 0 { 0.125 } else { 0.0625 });
    let frames = 3 * ((0.625 / dt.as_secs_f64()) as usize + 3) + 4;
    let mut seq_c: Vec<Key> = Vec::new();
    let mut seq_d: Vec<Key> = Vec::new();
    for _ in 0..frames {
        sim.frame(dt);
        acc.evals(2);
        let kc = sim.app.world.get::<AnimationSelector<Key, Cv>>(ec).unwrap().timeline_key;
        let kd = sim.app.world.get::<AnimationSelector<Key, Dv>>(ed).unwrap().timeline_key;
        if seq_c.last() != Some(&kc) { seq_c.push(kc); }
        if seq_d.last() != Some(&kd) { seq_d.push(kd); }
    }
    let want = vec![Key::Idle, Key::Go, Key::Done];
    let (sc, sd) = (sim.anim::<Cv>(ec).0, sim.anim::<Dv>(ed).0);
    let case = || case_json(STREAM_SHARED, index, vec![("registration_order", J::U(order as u64)), ("dv_key_registered", J::s(if dv_key == 1 { "first" } else { "second" })), ("multi_threaded", J::B(multi)), ("same_entity", J::B(same_entity)), ("frame_seconds", J::F(dt.as_secs_f64())), ("frames", J::U(frames as u64))]);
    for (name, seq, st) in [("Cv", &seq_c, sc), ("Dv", &seq_d, sd)] {
        if *seq != want || st != AnimationState::Ended {
            acc.violation(
                "c19:shared-key-type",
                format!("key type shared by two selectors: after {frames} frames of {:?} the selector governing {name} went through keys {:?} and its animator is {} — the chain Idle -> Go -> Done over three finite timelines should have been walked to the end (keys {:?}, Ended)", dt, seq, state_name(st), want),
                case(),
            );
            return;
        }
    }
    acc.sig(format!("shared-key|order{order}|dv{dv_key}|mt={multi}|same-entity={same_entity}"));
    if same_entity { sim.app.world.despawn(ec); } else { sim.app.world.despawn(ec); sim.app.world.despawn(ed); }
}

pub fn run(run: &mut Run) {
    let thorough = run.thorough();
    let depth = if thorough { 5 } else { 4 };
    run.rule = format!(
        "real bevy App with register_animation_key::<Cv, Key>() under 4 registration orders; entities with Animator + \
        AnimationSelector (keys Idle/Go/Done with timelines, NoTl without), optionally AnimationChain (none, go->done, a cycle, \
        self-loop + idle->go, via a key without timeline) and optionally a second animated component with its own Animator (short or \
        long timeline); ALL histories of length {depth} over {{no-op, assign Idle/Go/Done/NoTl}} x frame deltas {{0, 1/512 s, 1/8 s, 64 s}} \
        for each of 48 configurations plus random histories of 30-120 frames; every frame must be explained by the specification \
        (selection iff key differs from the key last acted on: animator restarts from 0, component does not jump, then follows the \
        new timeline started from the values at the switch; key without timeline => state None and component untouched; re-assigning \
        the current key => nothing; the key only changes by itself when the governed Animator ended in the previous frame with key \
        k and chain[k] exists) under some (system order, race outcome); non-trivial = a frame with a selection, a chain reaction or a \
        pending Ended event; distinct = (configuration, selection/steady, key before/after, animator transition, explicit op?, chain \
        pending?, other animator ended?); plus 96 runs in which one key type is shared by the selectors of two component types (both registration orders, one or two entities), judged by bounded progress: each selector walks its chain Idle -> Go -> Done to the end"
    );
    run.assumptions = vec![
        "chain_animations and select_animation are mutually unordered in mina's registration: either order is a legitimate schedule".into(),
        "if an explicit assignment lands between an animation's end and the chain's reaction, both 'stays' and 'becomes chain[k]' are accepted".into(),
    ];
    run.min_sigs = 60;
    let seed = run.seed;
    let rc = run.replay_case();
    let verbose = rc.is_some();
    let cfgs = configs();
    // quick: full depth only on a spread of 6 configurations, depth-1 histories on all of them
    let deep: Vec<usize> = (0..cfgs.len()).collect();
    let per = 20u64.pow(depth as u32);
    let per_shallow = 20u64.pow(depth as u32 - 1);
    let n_deep = per * deep.len() as u64;
    let n_exh = n_deep;
    let n_rnd: u64 = if thorough { 200_000 } else { 6_000 };
    run.extra.push(("configurations".into(), J::U(cfgs.len() as u64)));
    run.extra.push(("exhaustive_histories".into(), J::U(n_exh)));
    let ops = [Op::Nop, Op::Assign(Key::Idle), Op::Assign(Key::Go), Op::Assign(Key::Done), Op::Assign(Key::NoTl)];
    run.parallel(|w, nw, acc| {
        let mut sims: Vec<Sim> = (0..4).map(|o| Sim::new(o)).collect();
        let mut mt_sim: Option<Sim> = None;
        for i in my_cases(rc, STREAM_SHARED, 96, w, nw) {
            guarded(acc, "c19", STREAM_SHARED, i, |acc| shared_key_case(i, acc));
        }
        for i in my_cases(rc, STREAM_EXH, n_exh, w, nw) {
            let (cfg, mut x, dep) = if i < n_deep {
                (&cfgs[deep[(i / per) as usize]], i % per, depth)
            } else {
                let j = i - n_deep;
                (&cfgs[(j / per_shallow) as usize], j % per_shallow, depth - 1)
            };
            let steps: Vec<(Op, usize)> = (0..dep)
                .map(|_| {
                    let k = (x % 20) as usize;
                    x /= 20;
                    (ops[k / 4], k % 4)
                })
                .collect();
            guarded(acc, "c19", STREAM_EXH, i, |acc| run_history(&mut sims[(i % 4) as usize], cfg, &steps, acc, STREAM_EXH, i, verbose));
        }
        for i in my_cases(rc, STREAM_RND, n_rnd, w, nw) {
            let mut r = Rng::derive(seed, STREAM_RND, i);
            let cfg = &cfgs[r.usize(cfgs.len())];
            let len = 30 + r.usize(91);
            let steps: Vec<(Op, usize)> = (0..len)
                .map(|_| {
                    let op = if r.chance(1, 4) { ops[1 + r.usize(4)] } else { Op::Nop };
                    let d = match r.below(10) {
                        0 => 0,
                        1 | 2 => 1,
                        9 => 3,
                        _ => 2,
                    };
                    (op, d)
                })
                .collect();
            let o = r.usize(4);
            if i % 4 == 0 {
                let sim = mt_sim.get_or_insert_with(|| Sim::with_executor((w % 4) as u8, true));
                acc.count("histories_on_multi_threaded_executor", 1);
                guarded(acc, "c19", STREAM_RND, i, |acc| run_history(sim, cfg, &steps, acc, STREAM_RND, i, verbose));
            } else {
                guarded(acc, "c19", STREAM_RND, i, |acc| run_history(&mut sims[o], cfg, &steps, acc, STREAM_RND, i, verbose));
            }
        }
    });
    run.exhaustive = Some(false);
}
