//! Harness-side descriptions of timelines and animators (pure data), their JSON rendering for
//! replay files, and the generators.

use crate::shapes::Kind;
use crate::util::{Rng, J};
use mina::{Easing, EasingFunction, Repeat};
use std::cell::RefCell;

// ------------------------------------------------------------------------------------------------
// Easings

pub const BUILTIN_NAMES: [&str; 29] = [
    "Linear", "Ease", "In", "Out", "InOut", "InSine", "OutSine", "InOutSine", "InQuad", "OutQuad",
    "InOutQuad", "InCubic", "OutCubic", "InOutCubic", "InQuart", "OutQuart", "InOutQuart", "InQuint",
    "OutQuint", "InOutQuint", "InExpo", "OutExpo", "InOutExpo", "InCirc", "OutCirc", "InOutCirc",
    "InBack", "OutBack", "InOutBack",
];

pub fn builtin(i: usize) -> Easing {
    match i {
        0 => Easing::Linear,
        1 => Easing::Ease,
        2 => Easing::In,
        3 => Easing::Out,
        4 => Easing::InOut,
        5 => Easing::InSine,
        6 => Easing::OutSine,
        7 => Easing::InOutSine,
        8 => Easing::InQuad,
        9 => Easing::OutQuad,
        10 => Easing::InOutQuad,
        11 => Easing::InCubic,
        12 => Easing::OutCubic,
        13 => Easing::InOutCubic,
        14 => Easing::InQuart,
        15 => Easing::OutQuart,
        16 => Easing::InOutQuart,
        17 => Easing::InQuint,
        18 => Easing::OutQuint,
        19 => Easing::InOutQuint,
        20 => Easing::InExpo,
        21 => Easing::OutExpo,
        22 => Easing::InOutExpo,
        23 => Easing::InCirc,
        24 => Easing::OutCirc,
        25 => Easing::InOutCirc,
        26 => Easing::InBack,
        27 => Easing::OutBack,
        28 => Easing::InOutBack,
        _ => panic!("builtin easing index"),
    }
}

thread_local! {
    /// Log of (id, x) pairs seen by recording easings on this thread.
    pub static REC_LOG: RefCell<Vec<(u32, f32)>> = RefCell::new(Vec::new());
}

/// Custom easing that records its calls and returns a recognisable non-linear value.
#[derive(Clone, Debug)]
pub struct RecEasing {
    pub id: u32,
}

pub fn rec_pure(id: u32, x: f32) -> f32 {
    // monotone, fixed endpoints, distinctly curved per id: x^(1 + (id%5+1)/3) blended
    let k = 1.0 + ((id % 5) + 1) as f32 / 3.0;
    let w = 0.25 + 0.5 * ((id / 5) % 2) as f32;
    w * x.powf(k) + (1.0 - w) * (1.0 - (1.0 - x).powf(k + 0.5))
}

impl EasingFunction for RecEasing {
    fn calc(&self, x: f32) -> f32 {
        REC_LOG.with(|l| {
            let mut l = l.borrow_mut();
            if l.len() < 4096 {
                l.push((self.id, x));
            }
        });
        rec_pure(self.id, x)
    }
}

pub fn rec_log_take() -> Vec<(u32, f32)> {
    REC_LOG.with(|l| std::mem::take(&mut *l.borrow_mut()))
}

#[derive(Clone, Debug, PartialEq)]
pub enum Eas {
    Builtin(usize),
    Rec(u32),
}

impl Eas {
    pub fn make(&self) -> Easing {
        match self {
            Eas::Builtin(i) => builtin(*i),
            Eas::Rec(id) => Easing::Custom(Box::new(RecEasing { id: *id })),
        }
    }
    /// The easing as an uninterpreted function for the models (no logging).
    pub fn calc(&self, x: f32) -> f32 {
        match self {
            Eas::Builtin(i) => builtin(*i).calc(x),
            Eas::Rec(id) => rec_pure(*id, x),
        }
    }
    pub fn name(&self) -> String {
        match self {
            Eas::Builtin(i) => BUILTIN_NAMES[*i].to_string(),
            Eas::Rec(id) => format!("Rec({id})"),
        }
    }
    pub fn json(&self) -> J {
        J::s(self.name())
    }
    pub fn overshoots(&self) -> bool {
        matches!(self, Eas::Builtin(26..=28))
    }
}

// ------------------------------------------------------------------------------------------------
// Timeline specification

#[derive(Clone, Copy, Debug, PartialEq, Eq, Hash)]
pub enum Rep {
    None,
    Times(u32),
    Infinite,
}

impl Rep {
    pub fn to_mina(self) -> Repeat {
        match self {
            Rep::None => Repeat::None,
            Rep::Times(n) => Repeat::Times(n),
            Rep::Infinite => Repeat::Infinite,
        }
    }
    pub fn from_mina(r: Repeat) -> Rep {
        match r {
            Repeat::None => Rep::None,
            Repeat::Times(n) => Rep::Times(n),
            Repeat::Infinite => Rep::Infinite,
        }
    }
    /// Number of cycles, None for infinite.
    pub fn cycles(self) -> Option<u64> {
        match self {
            Rep::None => Some(1),
            Rep::Times(n) => Some(n as u64 + 1),
            Rep::Infinite => None,
        }
    }
    pub fn name(self) -> String {
        match self {
            Rep::None => "None".into(),
            Rep::Times(n) => format!("Times({n})"),
            Rep::Infinite => "Infinite".into(),
        }
    }
    pub fn class(self) -> &'static str {
        match self {
            Rep::None => "none",
            Rep::Times(0) => "times0",
            Rep::Times(_) => "timesN",
            Rep::Infinite => "inf",
        }
    }
}

#[derive(Clone, Debug, PartialEq)]
pub struct KfSpec {
    pub pos: f32,
    /// One entry per *animated* field of the shape; `None` = the keyframe omits the property.
    pub vals: Vec<Option<f64>>,
    pub easing: Option<Eas>,
}

#[derive(Clone, Debug, PartialEq)]
pub struct TlSpec {
    pub cycle: f32,
    pub delay: f32,
    pub repeat: Rep,
    pub reverse: bool,
    pub default_easing: Option<Eas>,
    /// In builder insertion order.
    pub kfs: Vec<KfSpec>,
}

impl TlSpec {
    pub fn plain(cycle: f32) -> Self {
        TlSpec { cycle, delay: 0.0, repeat: Rep::None, reverse: false, default_easing: None, kfs: vec![] }
    }
    /// Is the cycle a power of two (the dyadic exact regime of DESIGN §3.2)?
    pub fn dyadic_cycle(&self) -> bool {
        self.cycle > 0.0 && (self.cycle.to_bits() & 0x007f_ffff) == 0
    }
    /// Is `t` an instant at which every f32 intermediate of the time-to-position mapping is exact (so that the
    /// implementation's position equals M-scale's bit for bit)? Before the delay and well after the end: always. In
    /// between: `t - delay` must be exact and, unless the cycle is a power of two, so must the cycle fraction.
    pub fn exact_at(&self, t: f32) -> bool {
        let (c, d) = (self.cycle as f64, self.delay as f64);
        let e = t as f64 - d;
        if e < 0.0 {
            return true; // the sign of a difference of two floats is never lost
        }
        let total = self.repeat.cycles().map(|n| c * n as f64);
        if let Some(total) = total {
            if e > total * (1.0 + 1e-6) + c * 1e-6 {
                return true; // well after the end
            }
        }
        if ((t - self.delay) as f64) != e {
            return false;
        }
        if let Some(total) = total {
            if (total as f32) as f64 != total {
                return false;
            }
            if e > total {
                return true;
            }
        }
        if self.dyadic_cycle() {
            return true; // remainder and quotient by a power of two are exact
        }
        let k = (e / c).floor();
        let r = e - k * c;
        let rho = r / c;
        (rho as f32) as f64 == rho && ((1.0 - rho) as f32) as f64 == 1.0 - rho && rho * c == r
    }
    pub fn total(&self) -> f64 {
        match self.repeat.cycles() {
            Some(n) => self.delay as f64 + self.cycle as f64 * n as f64,
            None => f64::INFINITY,
        }
    }
    /// Is `delay + cycle x (repeats+1)` free of rounding when computed in f32 (product and sum both exactly
    /// representable)? Only then does the f32 total the library reports coincide with the exact one.
    pub fn total_is_exact_in_f32(&self) -> bool {
        match self.repeat.cycles() {
            Some(n) => {
                let p = self.cycle as f64 * n as f64;
                (p as f32) as f64 == p && (self.total() as f32) as f64 == self.total()
            }
            None => true,
        }
    }
    pub fn defines(&self, field: usize) -> bool {
        self.kfs.iter().any(|k| k.vals.get(field).copied().flatten().is_some())
    }
    pub fn json(&self) -> J {
        J::obj(vec![
            ("cycle", J::F(self.cycle as f64)),
            ("delay", J::F(self.delay as f64)),
            ("repeat", J::s(self.repeat.name())),
            ("reverse", J::B(self.reverse)),
            ("default_easing", self.default_easing.as_ref().map(|e| e.json()).unwrap_or(J::Null)),
            (
                "keyframes_in_insertion_order",
                J::A(self
                    .kfs
                    .iter()
                    .map(|k| {
                        J::obj(vec![
                            ("pos", J::F(k.pos as f64)),
                            ("pos_bits", J::U(k.pos.to_bits() as u64)),
                            (
                                "vals",
                                J::A(k.vals.iter().map(|v| v.map(J::F).unwrap_or(J::Null)).collect()),
                            ),
                            ("easing", k.easing.as_ref().map(|e| e.json()).unwrap_or(J::Null)),
                        ])
                    })
                    .collect()),
            ),
        ])
    }
    pub fn kind_name(&self) -> String {
        format!(
            "{}{}{}",
            self.repeat.class(),
            if self.reverse { "+rev" } else { "" },
            if self.delay != 0.0 { "+delay" } else { "" }
        )
    }
}

#[derive(Clone, Debug, PartialEq)]
pub struct AnimSpec {
    pub initial_state: usize,
    pub initial_values: Option<Vec<f64>>,
    /// One entry per state: empty = no timeline, one = plain, more = merged.
    pub states: Vec<Vec<TlSpec>>,
    pub force_merged: bool,
}

impl AnimSpec {
    pub fn json(&self) -> J {
        J::obj(vec![
            ("initial_state", J::U(self.initial_state as u64)),
            (
                "initial_values",
                self.initial_values.as_ref().map(|v| J::A(v.iter().map(|x| J::F(*x)).collect())).unwrap_or(J::Null),
            ),
            (
                "states",
                J::A(self.states.iter().map(|s| J::A(s.iter().map(|t| t.json()).collect())).collect()),
            ),
            ("force_merged", J::B(self.force_merged)),
        ])
    }
    pub fn animated(&self, s: usize) -> bool {
        !self.states[s].is_empty()
    }
    pub fn total(&self, s: usize) -> f64 {
        self.states[s].iter().map(|t| t.total()).fold(0.0, f64::max)
    }
    pub fn total_is_exact_in_f32(&self, s: usize) -> bool {
        self.states[s].iter().all(|t| t.total_is_exact_in_f32())
    }
}

// ------------------------------------------------------------------------------------------------
// Generators

#[derive(Clone, Debug)]
pub struct GenOpts {
    pub max_kf: usize,
    /// allow repeated positions for the same property
    pub repeats: bool,
    /// allow arbitrary (non-dyadic) f32 positions
    pub random_pos: bool,
    /// allow recording custom easings
    pub rec: bool,
    /// allow the overshooting Back family
    pub back: bool,
    pub min_kf: usize,
    /// allow positions that are distinct but only an ulp (or a denormal) apart — "instant steps"
    pub adjacent: bool,
    /// add the keyframes in a non-ascending order now and then (fully shuffled, or one straggler added last)
    pub shuffle: bool,
    /// allow negative delays (the timeline is already running at t = 0); not used for animators
    pub neg_delay: bool,
}

impl Default for GenOpts {
    fn default() -> Self {
        GenOpts { max_kf: 8, repeats: true, random_pos: true, rec: true, back: true, min_kf: 0, adjacent: true, neg_delay: false, shuffle: false }
    }
}

pub fn gen_value(r: &mut Rng, k: Kind) -> f64 {
    // wide integer types now and then carry values where f32 has no fraction bits left (2^23..2^24, all exactly
    // representable): rounding tricks that are harmless on small numbers show there
    if matches!(k, Kind::I32 | Kind::U32 | Kind::I64 | Kind::U64) && r.chance(1, 10) {
        let v = *r.pick(&[8_388_609.0f64, 8_388_611.0, 12_345_677.0, 16_777_213.0, 16_777_215.0, 16_777_216.0, 9_000_001.0]);
        return if matches!(k, Kind::I32 | Kind::I64) && r.chance(1, 2) { -v } else { v };
    }
    let (lo, hi) = k.gen_range();
    let v = lo + (hi - lo) * r.unit();
    if k.is_int() {
        v.round()
    } else if k == Kind::F32 || k == Kind::F64 {
        // keep to f32-representable values with a short mantissa so a(1-y)+by stays well-conditioned
        ((v * 8.0).round() / 8.0) as f32 as f64
    } else {
        v
    }
}

pub fn gen_easing(r: &mut Rng, o: &GenOpts) -> Eas {
    if o.rec && r.chance(1, 4) {
        return Eas::Rec(r.below(10) as u32);
    }
    let n = if o.back { 29 } else { 26 };
    Eas::Builtin(r.usize(n))
}

/// Timing from the exact (dyadic) regime of DESIGN §3.2.
pub fn gen_timing_exact(r: &mut Rng) -> (f32, f32, Rep, bool) {
    let cycle = *r.pick(&[0.5f32, 1.0, 2.0, 4.0, 1.0, 0.25, 0.125, 8.0]);
    let delay = *r.pick(&[0.0f32, 0.0, 0.25, 0.5, 1.0, 3.0, 0.125, 2.0]);
    let repeat = *r.pick(&[
        Rep::None,
        Rep::None,
        Rep::Times(0),
        Rep::Times(1),
        Rep::Times(3),
        Rep::Infinite,
        Rep::Times(2),
        Rep::Times(7),
        Rep::Infinite,
        Rep::Times(1000),
    ]);
    // one timing in six: a cycle that is not a power of two (integers such as 3, 41, 97 s, or 0.75, 12.5 s). The
    // instants delay + cycle x (k + j/2^m) are still exact there — the remainder is exact and the correctly rounded
    // quotient of an exact multiple is the multiple — but reciprocals, products and quotients of the cycle are not
    // (checks with a model-based oracle judge only the instants whose position is exact, `TlSpec::exact_at`)
    let cycle = if r.chance(1, 6) {
        *r.pick(&[3.0f32, 5.0, 6.0, 7.0, 10.0, 41.0, 47.0, 55.0, 61.0, 83.0, 97.0, 100.0, 0.75, 1.5, 12.5, 0.375, 24.0, 60.0])
    } else {
        cycle
    };
    (cycle, delay, repeat, r.chance(1, 3))
}

pub fn gen_positions(r: &mut Rng, n: usize, o: &GenOpts) -> Vec<f32> {
    let mut ps: Vec<f32> = Vec::new();
    for _ in 0..n {
        let p = if !ps.is_empty() && o.repeats && r.chance(1, 5) {
            *r.pick(&ps)
        } else if !ps.is_empty() && o.adjacent && o.random_pos && r.chance(1, 8) {
            // distinct from an existing position by one ulp (or a tiny value next to 0)
            let q = *r.pick(&ps);
            if q == 0.0 {
                *r.pick(&[f32::from_bits(1), 1.0e-20, f32::MIN_POSITIVE])
            } else if q >= 1.0 || r.chance(1, 2) {
                crate::util::next_down(q)
            } else {
                crate::util::next_up(q)
            }
        } else if o.random_pos && r.chance(1, 3) {
            r.unit() as f32
        } else {
            r.below(17) as f32 / 16.0
        };
        ps.push(p);
    }
    // force presence / absence of the end points now and then
    if n > 0 && r.chance(1, 3) {
        ps[0] = 0.0;
    }
    if n > 1 && r.chance(1, 3) {
        ps[n - 1] = 1.0;
    }
    if !o.repeats {
        // make distinct
        ps.sort_by(|a, b| a.total_cmp(b));
        ps.dedup();
    }
    ps.sort_by(|a, b| a.total_cmp(b));
    ps
}

/// A random timeline over the animated fields `kinds`, keyframes in ascending position order.
pub fn gen_tl(r: &mut Rng, kinds: &[Kind], o: &GenOpts) -> TlSpec {
    let (cycle, mut delay, repeat, reverse) = gen_timing_exact(r);
    if o.neg_delay && r.chance(1, 8) {
        delay = *r.pick(&[-0.25f32, -0.5, -1.0]);
    }
    // now and then many keyframes (binary search depth, index maps)
    let max_kf = if o.max_kf >= 8 && r.chance(1, 12) { 12 + r.usize(20) } else { o.max_kf };
    let n = o.min_kf + r.usize(max_kf - o.min_kf + 1);
    let ps = gen_positions(r, n, o);
    let dense = r.chance(1, 2);
    let mut kfs = Vec::new();
    for p in ps {
        let vals: Vec<Option<f64>> = kinds
            .iter()
            .map(|k| if r.chance(if dense { 4 } else { 2 }, 5) { Some(gen_value(r, *k)) } else { None })
            .collect();
        let easing = if r.chance(1, 2) { Some(gen_easing(r, o)) } else { None };
        kfs.push(KfSpec { pos: p, vals, easing });
    }
    let default_easing = if r.chance(2, 3) { Some(gen_easing(r, o)) } else { None };
    if o.shuffle {
        // among keyframes at the same position the one added first comes first (the model sorts stably),
        // whatever was added in between
        match r.below(6) {
            0 => r.shuffle(&mut kfs),
            1 if kfs.len() > 1 => {
                let k = kfs.remove(r.usize(kfs.len() - 1));
                kfs.push(k);
            }
            _ => {}
        }
    }
    TlSpec { cycle, delay, repeat, reverse, default_easing, kfs }
}

/// Times (f32, exactly representable) covering every phase of `spec` in the exact regime:
/// before/at the delay, interior points of the first forward pass, reverse pass, later cycles,
/// and after the end. `fracs` are cycle fractions in [0,1] with short mantissas.
pub fn phase_times(spec: &TlSpec, fracs: &[f32], r: &mut Rng) -> Vec<f32> {
    let mut ts = vec![-1.0f32, 0.0, spec.delay * 0.5, spec.delay];
    let ks: Vec<u64> = match spec.repeat.cycles() {
        Some(n) => (0..n.min(5)).collect(),
        None => vec![0, 1, 2, 7, 100],
    };
    for k in ks {
        for f in fracs {
            ts.push(spec.delay + spec.cycle * (k as f32 + *f));
        }
    }
    if let Some(n) = spec.repeat.cycles() {
        let total = spec.delay + spec.cycle * n as f32;
        ts.extend_from_slice(&[total, total + 0.125, total * 2.0 + 1.0, 1.0e6]);
    }
    let _ = r;
    ts
}
