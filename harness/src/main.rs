//! `mv <ID> [--tier quick|thorough] [--seed N] [--replay FILE]` — one workload + monitor per
//! property. Exit 0 = held, 1 = violation (line `VIOLATION property=<id> replay=<path>`),
//! 2 = inconclusive.

use mina_verif::checks;
use mina_verif::util::{self, Acc, Run, J};

fn main() {
    let args: Vec<String> = std::env::args().collect();
    if args.len() < 2 {
        eprintln!("usage: mv <ID> [--tier quick|thorough] [--seed N] [--replay FILE]");
        std::process::exit(2);
    }
    let id = args[1].clone();
    let mut tier = std::env::var("VERIF_TIER").unwrap_or_else(|_| "quick".into());
    let mut seed: u64 = std::env::var("VERIF_SEED").ok().and_then(|s| s.parse().ok()).unwrap_or(1);
    let mut replay = None;
    let mut log_only: Option<String> = None;
    let mut i = 2;
    while i < args.len() {
        match args[i].as_str() {
            "--tier" => {
                tier = args[i + 1].clone();
                i += 1;
            }
            "--seed" => {
                seed = args[i + 1].parse().expect("seed");
                i += 1;
            }
            "--log-only" => {
                log_only = Some(args[i + 1].clone());
                i += 1;
            }
            "--replay" => {
                let t = std::fs::read_to_string(&args[i + 1]).expect("read replay");
                let j = J::parse(&t).expect("parse replay");
                if let Some(s) = j.get("seed").and_then(|s| s.as_u64()) {
                    seed = s;
                }
                if let Some(t) = j.get("tier").and_then(|s| s.as_str()) {
                    tier = t.to_string();
                }
                replay = Some(j);
                i += 1;
            }
            other => {
                eprintln!("unknown argument {other}");
                std::process::exit(2);
            }
        }
        i += 1;
    }
    if tier != "quick" && tier != "thorough" {
        tier = "quick".into();
    }
    let mut run = Run {
        id: id.clone(),
        tier,
        seed,
        start: std::time::Instant::now(),
        acc: Acc::new(),
        rule: String::new(),
        assumptions: vec![],
        exhaustive: None,
        extra: vec![],
        min_sigs: 2,
        replay,
        inconclusive: vec![],
    };
    // A panic inside a monitor (as opposed to one caught and classified by it) is a harness
    // error: inconclusive, never a verdict.
    util::install_panic_hook();
    if let Some(path) = log_only {
        checks::c20::log_only(&mut run, &path);
        std::process::exit(0);
    }
    let ok = checks::dispatch(&id, &mut run);
    if !ok {
        eprintln!("unknown check {id}");
        std::process::exit(2);
    }
    std::process::exit(run.finish());
}
