//! Runtime for the generated program families (C15, C16, C17): the generated `main.rs` only holds
//! the macro invocations / struct definitions and their builder twins; comparison, coverage
//! accounting and evidence writing live here.

use crate::checks::anim::{same_all, Op};
use crate::model::mscale_spec;
use crate::shapes::*;
use crate::spec::*;
use crate::util::*;
use mina::{MergedTimeline, StateAnimator, Timeline};

pub fn new_run(id: &str) -> Run {
    install_panic_hook();
    let args: Vec<String> = std::env::args().collect();
    let mut tier = "quick".to_string();
    let mut seed = 1u64;
    let mut replay = None;
    let mut i = 1;
    while i < args.len() {
        match args[i].as_str() {
            "--tier" => {
                tier = args[i + 1].clone();
                i += 1;
            }
            "--seed" => {
                seed = args[i + 1].parse().unwrap_or(1);
                i += 1;
            }
            "--replay" => {
                let t = std::fs::read_to_string(&args[i + 1]).expect("read replay");
                replay = Some(J::parse(&t).expect("parse replay"));
                i += 1;
            }
            _ => {}
        }
        i += 1;
    }
    Run {
        id: id.to_string(),
        tier,
        seed,
        start: std::time::Instant::now(),
        acc: Acc::new(),
        rule: String::new(),
        assumptions: vec![],
        exhaustive: None,
        extra: vec![],
        min_sigs: 2,
        replay,
        inconclusive: vec![],
    }
}

pub fn arg_value(name: &str) -> Option<String> {
    let args: Vec<String> = std::env::args().collect();
    args.iter().position(|a| a == name).and_then(|i| args.get(i + 1).cloned())
}

/// Folds the result of the compile-fail observation (written by the python driver) into the run.
/// File format: {"lines":[{"line":n,"class":"..","text":"..","ill_formed":bool,"errors":k}], "compiled": bool}
pub fn fold_rejects(run: &mut Run, prop: &str) {
    let Some(path) = arg_value("--rejects") else { return };
    let Ok(t) = std::fs::read_to_string(&path) else {
        run.inconclusive.push("compile-fail observation file missing".into());
        return;
    };
    let Ok(j) = J::parse(&t) else {
        run.inconclusive.push("compile-fail observation file unreadable".into());
        return;
    };
    let Some(J::A(lines)) = j.get("lines") else { return };
    let mut n_ill = 0u64;
    let mut n_ctl = 0u64;
    for l in lines {
        let ill = matches!(l.get("ill_formed"), Some(J::B(true)));
        let errs = l.get("errors").and_then(|e| e.as_u64()).unwrap_or(0);
        let class = l.get("class").and_then(|c| c.as_str()).unwrap_or("?").to_string();
        let text = l.get("text").and_then(|c| c.as_str()).unwrap_or("?").to_string();
        let line = l.get("line").and_then(|e| e.as_u64()).unwrap_or(0);
        run.acc.eval();
        if ill {
            n_ill += 1;
            if errs == 0 {
                run.acc.violation(
                    format!("{prop}:accepted:{class}"),
                    format!("ill-formed input ({class}) was accepted by the compiler without any error: `{text}`"),
                    case_json(900, line, vec![("class", J::s(class.clone())), ("text", J::s(text.clone()))]),
                );
            } else {
                run.acc.sig(format!("rejected|{class}|{}", text.len() % 7));
                run.acc.sample(2, || J::obj(vec![("rejected_at_compile_time", J::s(text.clone())), ("class", J::s(class.clone())), ("error_diagnostics", J::U(errs))]));
            }
        } else {
            n_ctl += 1;
            if errs > 0 {
                run.inconclusive.push(format!("well-formed control line {line} `{text}` got a compiler error"));
            }
        }
    }
    run.extra.push(("compile_fail_ill_formed_lines".into(), J::U(n_ill)));
    run.extra.push(("compile_fail_control_lines".into(), J::U(n_ctl)));
}

// ------------------------------------------------------------------------------------------------
// C15

thread_local! {
    static KNOB: std::cell::Cell<u32> = std::cell::Cell::new(0);
}
/// A value the driver changes between evaluations of one generated expansion site (the caller variables next to every
/// `timeline!` / `animator!` case are derived from it).
pub fn knob() -> u32 {
    KNOB.with(|k| k.get())
}
pub fn set_knob(v: u32) {
    KNOB.with(|k| k.set(v))
}

pub struct TlCase<S: Shape> {
    pub idx: u64,
    pub sentence: &'static str,
    pub twin: &'static str,
    pub exact: bool,
    pub sig: &'static str,
    pub mac: fn() -> MergedTimeline<S::Tl>,
    pub bld: fn() -> MergedTimeline<S::Tl>,
}

fn meta<T: Timeline>(t: &T) -> (f32, Option<f32>, f32, Rep) {
    (t.delay(), t.cycle_duration(), t.duration(), Rep::from_mina(t.repeat()))
}

fn close(a: f32, b: f32, exact: bool) -> bool {
    if exact {
        a.to_bits() == b.to_bits() || (a == 0.0 && b == 0.0)
    } else {
        a == b || (a - b).abs() <= 4.0 * ulp32(a.abs().max(b.abs()))
    }
}

pub fn run_c15<S: Shape>(run: &mut Run, cases: &[TlCase<S>]) {
    let rc = run.replay_case();
    let seed = run.seed;
    for c in cases {
        if let Some((_, i)) = rc {
            if i != c.idx {
                continue;
            }
        }
        let acc = &mut run.acc;
        let case = |what: &str, t: f32| case_json(1, c.idx, vec![("sentence", J::s(c.sentence)), ("builder_twin", J::s(c.twin)), ("t", J::F(t as f64)), ("clause", J::s(what))]);
        set_knob((c.idx % 3) as u32);
        let r = catch(|| ((c.mac)(), (c.bld)()));
        let (m, b) = match r {
            Ok(x) => x,
            Err(msg) => {
                acc.violation("c15:panic", format!("building `{}` panicked: {msg}", c.sentence), case("build", 0.0));
                continue;
            }
        };
        acc.eval();
        let (mm, mb) = (meta(&m), meta(&b));
        let meta_ok = close(mm.0, mb.0, c.exact)
            && match (mm.1, mb.1) {
                (Some(x), Some(y)) => close(x, y, c.exact),
                (None, None) => true,
                _ => false,
            }
            && (close(mm.2, mb.2, c.exact) || (mm.2.is_infinite() && mb.2.is_infinite()))
            && mm.3 == mb.3;
        if !meta_ok {
            acc.violation(
                "c15:metadata",
                format!("`{}`: delay/cycle/duration/repeat {:?} but the builder reading gives {:?}", c.sentence, mm, mb),
                case("metadata", 0.0),
            );
            continue;
        }
        // times across all phases
        let (delay, cycle, dur) = (mb.0, mb.1.unwrap_or(1.0), mb.2);
        let t_end = if dur.is_finite() { dur.min(delay + 8.0 * cycle) } else { delay + 8.0 * cycle };
        let mut times: Vec<f32> = vec![-1.0, 0.0, delay * 0.5, delay];
        for k in 0..=96 {
            times.push(-0.25 + (t_end + 0.75) * k as f32 / 96.0);
        }
        for k in 0..4 {
            for f in [0.0f32, 0.125, 0.5, 0.75, 1.0] {
                times.push(delay + cycle * (k as f32 + f));
            }
        }
        if dur.is_finite() {
            times.extend_from_slice(&[dur, dur + 0.5, dur * 2.0 + 3.0]);
        }
        let mut r = Rng::derive(seed, 15, c.idx);
        for _ in 0..8 {
            times.push((r.unit() * (t_end as f64 + 1.0)) as f32);
        }
        if !c.exact {
            // the macro's and the reading's f32 numbers differ by an ulp: a phase shift that grows with
            // the number of elapsed cycles. Compare only early and away from the wrap/turn instants.
            times.retain(|t| {
                let e = (*t - delay) / cycle;
                *t <= delay + 1.6 * cycle && [0.0f32, 0.5, 1.0, 1.5].iter().all(|b| (e - b).abs() > 0.005)
            });
        }
        let mut ok = true;
        for t in times {
            let init = crate::checks::c08::fill_sentinels::<S>(&mut r);
            let (mut vm, mut vb) = (init.clone(), init.clone());
            m.update(&mut vm, t);
            b.update(&mut vb, t);
            // envelope for the inexact regime: the builder twin a little earlier / later
            let (mut vlo, mut vhi) = (init.clone(), init.clone());
            if !c.exact {
                b.update(&mut vlo, t - 2e-3 * cycle);
                b.update(&mut vhi, t + 2e-3 * cycle);
            }
            acc.eval();
            for f in 0..S::n() {
                let (x, y) = (vm.get(f), vb.get(f));
                let same = vm.bits(f) == vb.bits(f) || (x == 0.0 && y == 0.0);
                let (lo, hi) = (y.min(vlo.get(f)).min(vhi.get(f)), y.max(vlo.get(f)).max(vhi.get(f)));
                let tol = 1e-3 * (1.0 + x.abs().max(y.abs())) + if S::KINDS[f].is_int() { 1.0 } else { 0.0 };
                let near = same || (!c.exact && x >= lo - tol && x <= hi + tol);
                if !near {
                    acc.violation(
                        "c15:values",
                        format!("`{}`: field {} at t={t} is {x} but the builder reading `{}` gives {y}", c.sentence, S::FIELDS[f], c.twin),
                        case("values", t),
                    );
                    ok = false;
                    break;
                }
            }
            if !ok {
                break;
            }
        }
        if ok {
            acc.sig(c.sig.to_string());
            acc.sample(4, || case("macro-built and builder-built timelines agree at all sampled times and on metadata", 0.0));
        }
    }
}

// ------------------------------------------------------------------------------------------------
// C16

pub struct AnCase<S: Shape> {
    pub idx: u64,
    pub block: &'static str,
    pub twin: &'static str,
    pub sig: &'static str,
    pub mac: fn() -> Anim<S>,
    pub bld: fn() -> Anim<S>,
}

const C16_ALPHABET: [Op; 8] = [Op::Adv(0.0), Op::Adv(0.125), Op::Adv(1.0), Op::Set(0), Op::Set(1), Op::Set(2), Op::Set(3), Op::Set(4)];

fn drive<S: Shape>(c: &AnCase<S>, ops: &[Op], acc: &mut Acc, stream: u64, hidx: u64) -> bool {
    // the same expansion site is evaluated once per history, with caller variables that differ between histories
    set_knob((hidx % 4) as u32);
    let (mut m, mut b) = ((c.mac)(), (c.bld)());
    let case = |k: usize, what: &str| {
        case_json(stream, c.idx, vec![("block", J::s(c.block)), ("builder_twin", J::s(c.twin)), ("history_index", J::U(hidx)), ("ops", crate::checks::anim::ops_json(ops)), ("failing_op_index", J::U(k as u64)), ("clause", J::s(what))])
    };
    acc.eval();
    if m.current_state() != b.current_state() || !same_all(m.current_values(), b.current_values()) || m.is_ended() != b.is_ended() {
        acc.violation(
            "c16:initial",
            format!(
                "initial state/values/is_ended {:?}/{:?}/{} differ from the builder reading {:?}/{:?}/{}",
                m.current_state(),
                m.current_values().vals(),
                m.is_ended(),
                b.current_state(),
                b.current_values().vals(),
                b.is_ended()
            ),
            case(0, "initial state and values"),
        );
        return false;
    }
    for (k, op) in ops.iter().enumerate() {
        crate::checks::anim::apply_real::<S>(&mut m, *op);
        crate::checks::anim::apply_real::<S>(&mut b, *op);
        acc.eval();
        if m.current_state() != b.current_state() || !same_all(m.current_values(), b.current_values()) || m.is_ended() != b.is_ended() {
            acc.violation(
                "c16:history",
                format!(
                    "after op #{k} {:?}: macro-built animator state {:?} values {:?} ended {}; builder-built {:?} {:?} {}",
                    op, m.current_state(), m.current_values().vals(), m.is_ended(), b.current_state(), b.current_values().vals(), b.is_ended()
                ),
                case(k, "same behaviour over any history"),
            );
            return false;
        }
    }
    true
}

pub fn run_c16<S: Shape>(run: &mut Run, cases: &[AnCase<S>]) {
    let rc = run.replay_case();
    let seed = run.seed;
    let depth = 4usize;
    let n_hist = 8u64.pow(depth as u32);
    run.extra.push(("histories_per_block_exhaustive".into(), J::U(n_hist)));
    let n_workers = run.workers();
    let _ = n_workers;
    let cases_ref: Vec<&AnCase<S>> = cases.iter().collect();
    let results = std::sync::Mutex::new(Vec::<Acc>::new());
    std::thread::scope(|sc| {
        let nw = if rc.is_some() { 1 } else { run.workers() };
        for w in 0..nw {
            let cases_ref = &cases_ref;
            let results = &results;
            sc.spawn(move || {
                install_panic_hook();
                let mut acc = Acc::new();
                for (ci, c) in cases_ref.iter().enumerate() {
                    if ci % nw != w {
                        continue;
                    }
                    if let Some((_, i)) = rc {
                        if i != c.idx {
                            continue;
                        }
                    }
                    let r = catch(|| {
                        let mut ok = true;
                        for h in 0..n_hist {
                            let mut x = h;
                            let ops: Vec<Op> = (0..depth)
                                .map(|_| {
                                    let o = C16_ALPHABET[(x % 8) as usize];
                                    x /= 8;
                                    o
                                })
                                .collect();
                            if !drive::<S>(c, &ops, &mut acc, 1, h) {
                                ok = false;
                                break;
                            }
                        }
                        if ok {
                            for h in 0..50u64 {
                                let mut r = Rng::derive(seed, 16 + c.idx, h);
                                let len = 20 + r.usize(60);
                                let ops = crate::checks::anim::random_history(&mut r, len, true);
                                if !drive::<S>(c, &ops, &mut acc, 2, h) {
                                    ok = false;
                                    break;
                                }
                            }
                        }
                        ok
                    });
                    match r {
                        Ok(true) => {
                            acc.sig(c.sig.to_string());
                            acc.sample(3, || J::obj(vec![("stream", J::U(1)), ("index", J::U(c.idx)), ("block", J::s(c.block)), ("builder_twin", J::s(c.twin)), ("histories", J::U(n_hist + 50))]));
                        }
                        Ok(false) => {}
                        Err(msg) => acc.violation("c16:panic", format!("animator block `{}` panicked: {msg}", c.block), case_json(1, c.idx, vec![("block", J::s(c.block))])),
                    }
                }
                results.lock().unwrap().push(acc);
            });
        }
    });
    for a in results.into_inner().unwrap() {
        run.acc.merge(a);
    }
}

// ------------------------------------------------------------------------------------------------
// C17

/// All run-time clauses of C17 for one generated shape (the setter clause is decided by the fact
/// that `shape_impl!` — which calls every animated field's setter — compiled, and by the
/// compile-fail crate for non-animated fields).
pub fn run_c17_shape<S: Shape>(run: &mut Run, shape_idx: u64, desc: &'static str) {
    let rc = run.replay_case();
    if let Some((_, i)) = rc {
        if i != shape_idx {
            return;
        }
    }
    let verbose = rc.is_some();
    let seed = run.seed;
    let acc = &mut run.acc;
    let mut r = Rng::derive(seed, 17, shape_idx);
    let kinds = &S::KINDS[..S::N_ANIM];
    let v0 = acc.violations.len();
    guarded(acc, "c17", 17, shape_idx, |acc| {
        // (iii) evaluation per C01 on the (remote) target: model oracle on 3 keyframe sets
        for _ in 0..3 {
            let spec = gen_tl(&mut r, kinds, &GenOpts { shuffle: true, ..GenOpts::default() });
            let subst: Option<Vec<f64>> = if r.chance(1, 2) { Some(S::KINDS.iter().map(|k| gen_value(&mut r, *k)).collect()) } else { None };
            crate::checks::c01::check_timeline::<S>(&spec, subst.as_deref(), acc, 17, shape_idx, verbose, &mut r);
            // (iv) accessors return what the builder was given
            let tl = S::build_tl(&spec);
            acc.eval();
            let want_total = spec.total();
            let d = tl.duration();
            let dur_ok = if want_total.is_infinite() { d == f32::INFINITY } else { (d as f64 - want_total).abs() <= 2.0 * ulp32(want_total as f32) as f64 };
            if tl.delay().to_bits() != spec.delay.to_bits() || tl.cycle_duration().map(|c| c.to_bits()) != Some(spec.cycle.to_bits()) || Rep::from_mina(tl.repeat()) != spec.repeat || !dur_ok {
                acc.violation(
                    "c17:accessors",
                    format!("{desc}: accessors (delay {}, cycle {:?}, duration {}, repeat {:?}) differ from the builder input (delay {}, cycle {}, total {want_total}, repeat {:?})", tl.delay(), tl.cycle_duration(), d, tl.repeat(), spec.delay, spec.cycle, spec.repeat),
                    case_json(17, shape_idx, vec![("shape", J::s(desc)), ("timeline", spec.json())]),
                );
            }
            // C08's oracle: fields outside the animated-and-keyframed set keep their sentinel bits
            for t in phase_times(&spec, &[0.0, 0.4375, 1.0], &mut r) {
                let before = crate::checks::c08::fill_sentinels::<S>(&mut r);
                let mut v = before.clone();
                tl.update(&mut v, t);
                acc.eval();
                for f in 0..S::n() {
                    let touched = f < S::N_ANIM && spec.defines(f);
                    if !touched && v.bits(f) != before.bits(f) {
                        acc.violation(
                            "c17:untouched",
                            format!("{desc}: field {} is not animated/keyframed but changed at t={t}", S::FIELDS[f]),
                            case_json(17, shape_idx, vec![("shape", J::s(desc)), ("timeline", spec.json()), ("t", J::F(t as f64))]),
                        );
                    }
                }
                let _ = mscale_spec(&spec, t as f64);
            }
        }
        // (ii) keyframe_from copies exactly the animated fields
        for round in 0..6 {
            let mut v = S::default();
            for i in 0..S::n() {
                // some fields hold exactly the type's default (0): they must be copied like any other value
                let zero = round >= 3 && r.chance(1, 2);
                v.set(i, if zero { 0.0 } else { gen_value(&mut r, S::KINDS[i]) });
            }
            let p = *r.pick(&[0.0f32, 0.25, 0.5, 1.0]);
            let tl = S::build_from_value(&v, p);
            let before = crate::checks::c08::fill_sentinels::<S>(&mut r);
            let mut out = before.clone();
            // default timing: cycle 1, no delay => time p is position p
            tl.update(&mut out, p);
            acc.eval();
            for f in 0..S::n() {
                let want = if f < S::N_ANIM { v.bits(f) } else { before.bits(f) };
                let same = out.bits(f) == want || (f < S::N_ANIM && out.get(f) == v.get(f));
                if !same {
                    acc.violation(
                        if f < S::N_ANIM { "c17:keyframe_from-missing" } else { "c17:keyframe_from-extra" },
                        format!("{desc}: timeline built from keyframe_from(v, {p}) gives field {} = {} at position {p}; v.{} = {}, sentinel {:#x}", S::FIELDS[f], out.get(f), S::FIELDS[f], v.get(f), before.bits(f)),
                        case_json(17, shape_idx, vec![("shape", J::s(desc)), ("p", J::F(p as f64)), ("field", J::s(S::FIELDS[f]))]),
                    );
                }
            }
        }
    });
    if acc.violations.len() == v0 {
        acc.sig(format!("shape|{desc}"));
        acc.sample(4, || J::obj(vec![("stream", J::U(17)), ("index", J::U(shape_idx)), ("shape", J::s(desc))]));
    }
}
