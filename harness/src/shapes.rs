//! Statically declared `derive(Animate)` shapes plus the reflection glue the generic models and
//! monitors use (`get`, `bits`, `set`), and the builders that turn a harness-side specification
//! into a real timeline / animator through mina's *public builder API*.

use crate::spec::{AnimSpec, TlSpec};
use mina::prelude::*;
use mina::{MergedTimeline, TimelineOrBuilder};
use std::fmt::Debug;

#[derive(Clone, Copy, Debug, PartialEq, Eq, Hash, PartialOrd, Ord)]
pub enum Kind {
    F32,
    F64,
    U8,
    I8,
    I16,
    U16,
    I32,
    U32,
    I64,
    U64,
}

impl Kind {
    pub fn is_int(self) -> bool {
        !matches!(self, Kind::F32 | Kind::F64)
    }
    /// Representable range of the type (integers saturate at these bounds).
    pub fn range(self) -> (f64, f64) {
        match self {
            Kind::F32 | Kind::F64 => (f64::NEG_INFINITY, f64::INFINITY),
            Kind::U8 => (0.0, 255.0),
            Kind::I8 => (-128.0, 127.0),
            Kind::I16 => (-32768.0, 32767.0),
            Kind::U16 => (0.0, 65535.0),
            Kind::I32 => (i32::MIN as f64, i32::MAX as f64),
            Kind::U32 => (0.0, u32::MAX as f64),
            Kind::I64 => (i64::MIN as f64, i64::MAX as f64),
            Kind::U64 => (0.0, u64::MAX as f64),
        }
    }
    /// Range of keyframe values generators may use (with headroom for Back overshoot, §3.2).
    pub fn gen_range(self) -> (f64, f64) {
        match self {
            Kind::F32 | Kind::F64 => (-1000.0, 1000.0),
            Kind::U8 => (60.0, 190.0),
            Kind::I8 => (-60.0, 60.0),
            Kind::I16 => (-20000.0, 20000.0),
            Kind::U16 => (10000.0, 50000.0),
            Kind::I32 => (-1.0e6, 1.0e6),
            Kind::U32 => (1.0e6, 3.0e6),
            Kind::I64 => (-1.0e6, 1.0e6),
            Kind::U64 => (1.0e6, 3.0e6),
        }
    }
}

#[derive(Clone, Debug, Default, Eq, PartialEq, Hash, State)]
pub enum St {
    #[default]
    A,
    B,
    C,
    D,
    E,
}
pub const STATES: [St; 5] = [St::A, St::B, St::C, St::D, St::E];
impl St {
    pub fn idx(&self) -> usize {
        STATES.iter().position(|s| s == self).unwrap()
    }
}

pub type Anim<S> = EnumStateAnimator<St, <S as Shape>::Tl>;

pub trait Shape: Clone + Default + Debug + PartialEq + Send + Sync + 'static {
    type Tl: Timeline<Target = Self> + TimelineOrBuilder<Self::Tl> + Clone + Debug + Send + Sync + 'static;
    const NAME: &'static str;
    /// Kinds of all fields; the first `N_ANIM` are the animated ones.
    const KINDS: &'static [Kind];
    const FIELDS: &'static [&'static str];
    const N_ANIM: usize;

    fn get(&self, i: usize) -> f64;
    fn bits(&self, i: usize) -> u64;
    fn set(&mut self, i: usize, v: f64);
    fn set_bits(&mut self, i: usize, b: u64);
    /// Builds the real timeline through `T::timeline()…keyframe(T::keyframe(p)…)….build()`.
    fn build_tl(spec: &TlSpec) -> Self::Tl;
    /// `T::keyframe_from(&v, p)` route: a one-keyframe timeline at position p.
    fn build_from_value(v: &Self, p: f32) -> Self::Tl;
    /// The same timeline as `build_tl`, but handed over as the *unbuilt* builder and finished by the generated
    /// `TimelineOrBuilder` impl of the builder type (the route `StateAnimatorBuilder::on(state, builder)` takes).
    fn build_via_builder(spec: &TlSpec) -> MergedTimeline<Self::Tl>;

    fn n() -> usize {
        Self::KINDS.len()
    }
    fn all_bits(&self) -> Vec<u64> {
        (0..Self::n()).map(|i| self.bits(i)).collect()
    }
    fn from_vals(vals: &[f64]) -> Self {
        let mut s = Self::default();
        for (i, v) in vals.iter().enumerate() {
            s.set(i, *v);
        }
        s
    }
    fn vals(&self) -> Vec<f64> {
        (0..Self::n()).map(|i| self.get(i)).collect()
    }
}

thread_local! {
    /// Timing setters `build_tl` / `build_via_builder` leave out (bit 0 duration, 1 delay, 2 repeat, 3 reverse): the
    /// builder's own defaults then apply. Set through `with_omitted`.
    pub static OMIT_TIMING: std::cell::Cell<u8> = const { std::cell::Cell::new(0) };
}

/// Runs `f` with the given timing setters omitted from every timeline built inside it (on this thread).
pub fn with_omitted<T>(mask: u8, f: impl FnOnce() -> T) -> T {
    let old = OMIT_TIMING.with(|o| o.replace(mask));
    let out = f();
    OMIT_TIMING.with(|o| o.set(old));
    out
}

pub fn build_merged<S: Shape>(specs: &[TlSpec]) -> MergedTimeline<S::Tl> {
    MergedTimeline::of(specs.iter().map(|s| S::build_tl(s)))
}

pub fn build_anim<S: Shape>(spec: &AnimSpec) -> Anim<S> {
    // The builder's calls commute; the order they are made in varies with the specification.
    let n_tl: usize = spec.states.iter().map(|s| s.len()).sum();
    let (initial_last, reverse_order) = (n_tl % 2 == 1, (n_tl / 2) % 2 == 1);
    let initial = |mut b: StateAnimatorBuilder<St, S::Tl>| {
        if let Some(v) = &spec.initial_values {
            b = b.from_values(S::from_vals(v));
        }
        b.from_state(STATES[spec.initial_state].clone())
    };
    let mut b = StateAnimatorBuilder::<St, S::Tl>::new();
    if !initial_last {
        b = initial(b);
    }
    let mut order: Vec<usize> = (0..spec.states.len()).collect();
    if reverse_order {
        order.reverse();
    }
    for i in order {
        let st = &spec.states[i];
        match st.len() {
            0 => {}
            // a single timeline goes in as the plain timeline (TimelineOrBuilder for the timeline)
            1 if !spec.force_merged && (st[0].kfs.len() + i) % 3 == 2 => b = b.on(STATES[i].clone(), S::build_via_builder(&st[0])),
            1 if !spec.force_merged => {
                // `on` documents that the most recent call for a state wins: now and then an earlier registration
                // (of another state's timeline) is overwritten
                if (st[0].kfs.len() + i) % 5 == 0 {
                    if let Some(other) = spec.states.iter().find(|o| !o.is_empty() && !std::ptr::eq(*o, st)) {
                        b = b.on(STATES[i].clone(), S::build_tl(&other[0]));
                    }
                }
                b = b.on(STATES[i].clone(), S::build_tl(&st[0]))
            }
            _ => b = b.on(STATES[i].clone(), build_merged::<S>(st)),
        }
    }
    if initial_last {
        b = initial(b);
    }
    b.build()
}

pub fn to_merged<S: Shape>(t: S::Tl) -> MergedTimeline<S::Tl> {
    TimelineOrBuilder::build(t)
}

#[macro_export]
macro_rules! as_bits {
    (f32, $v:expr) => {
        ($v).to_bits() as u64
    };
    (f64, $v:expr) => {
        ($v).to_bits()
    };
    ($t:ident, $v:expr) => {
        ($v) as i64 as u64
    };
}
#[macro_export]
macro_rules! from_bits {
    (f32, $b:expr) => {
        f32::from_bits($b as u32)
    };
    (f64, $b:expr) => {
        f64::from_bits($b)
    };
    ($t:ident, $b:expr) => {
        ($b as i64) as $t
    };
}

/// `shape_impl!(Target, AnimateType, TimelineType, [animated fields], [other fields])` — implements
/// [`Shape`] for `Target` using the API that `derive(Animate)` generated on `AnimateType` (the two
/// differ for `#[animate(remote = "...")]` proxies).
#[macro_export]
macro_rules! shape_impl {
    ($name:ty, $anim:ty, $tl:ty, [$($af:ident : $aty:ident = $ak:ident),*], [$($pf:ident : $pty:ident = $pk:ident),*]) => {
        impl $crate::shapes::Shape for $name {
            type Tl = $tl;
            const NAME: &'static str = stringify!($name);
            const KINDS: &'static [$crate::shapes::Kind] = &[$($crate::shapes::Kind::$ak,)* $($crate::shapes::Kind::$pk,)*];
            const FIELDS: &'static [&'static str] = &[$(stringify!($af),)* $(stringify!($pf),)*];
            const N_ANIM: usize = { let a: &[$crate::shapes::Kind] = &[$($crate::shapes::Kind::$ak,)*]; a.len() };

            #[allow(unused_assignments, unused_mut, unused_variables)]
            fn get(&self, i: usize) -> f64 {
                let mut k = 0usize;
                $( if i == k { return self.$af as f64; } k += 1; )*
                $( if i == k { return self.$pf as f64; } k += 1; )*
                panic!("field index")
            }
            #[allow(unused_assignments, unused_mut, unused_variables)]
            fn bits(&self, i: usize) -> u64 {
                let mut k = 0usize;
                $( if i == k { return $crate::as_bits!($aty, self.$af); } k += 1; )*
                $( if i == k { return $crate::as_bits!($pty, self.$pf); } k += 1; )*
                panic!("field index")
            }
            #[allow(unused_assignments, unused_mut, unused_variables)]
            fn set(&mut self, i: usize, v: f64) {
                let mut k = 0usize;
                $( if i == k { self.$af = v as $aty; return; } k += 1; )*
                $( if i == k { self.$pf = v as $pty; return; } k += 1; )*
                panic!("field index")
            }
            #[allow(unused_assignments, unused_mut, unused_variables)]
            fn set_bits(&mut self, i: usize, b: u64) {
                let mut k = 0usize;
                $( if i == k { self.$af = $crate::from_bits!($aty, b); return; } k += 1; )*
                $( if i == k { self.$pf = $crate::from_bits!($pty, b); return; } k += 1; )*
                panic!("field index")
            }
            #[allow(unused_assignments, unused_mut, unused_variables)]
            fn build_tl(spec: &$crate::spec::TlSpec) -> $tl {
                use ::mina::{Animate as _, KeyframeBuilder as _, TimelineConfigurationBuilder as _};
                // The builder calls commute, so the order they are made in varies with the specification
                // (deterministically: twins built from equal specifications are built identically): timing and
                // default easing before or after the keyframes, a keyframe's easing before, between or after
                // its value setters.
                let timing_last = (spec.kfs.len() / 2) % 2 == 1;
                let easing_last = spec.kfs.len() % 2 == 1;
                let mut b = <$anim>::timeline();
                if !timing_last {
                    let om = $crate::shapes::OMIT_TIMING.with(|o| o.get());
                    if om & 1 == 0 { b = b.duration_seconds(spec.cycle); }
                    if om & 2 == 0 { b = b.delay_seconds(spec.delay); }
                    if om & 4 == 0 { b = b.repeat(spec.repeat.to_mina()); }
                    if om & 8 == 0 { b = b.reverse(spec.reverse); }
                }
                if let (false, Some(e)) = (easing_last, &spec.default_easing) {
                    b = b.default_easing(e.make());
                }
                for (ki, kf) in spec.kfs.iter().enumerate() {
                    let mut k = <$anim>::keyframe(kf.pos);
                    let slot = ((kf.pos.to_bits() >> 3) as usize ^ ki.wrapping_mul(7)) % 3; // 0 last, 1 first, 2 after the first value
                    let mut pending = kf.easing.as_ref();
                    if slot == 1 {
                        if let Some(e) = pending.take() { k = k.easing(e.make()); }
                    }
                    let mut idx = 0usize;
                    let mut given = 0usize;
                    $(
                        if let Some(v) = kf.vals.get(idx).copied().flatten() {
                            k = k.$af(v as $aty);
                            given += 1;
                            if slot == 2 && given == 1 {
                                if let Some(e) = pending.take() { k = k.easing(e.make()); }
                            }
                        }
                        idx += 1;
                    )*
                    if let Some(e) = pending.take() {
                        k = k.easing(e.make());
                    }
                    b = b.keyframe(k);
                }
                if let (true, Some(e)) = (easing_last, &spec.default_easing) {
                    b = b.default_easing(e.make());
                }
                if timing_last {
                    let om = $crate::shapes::OMIT_TIMING.with(|o| o.get());
                    if om & 8 == 0 { b = b.reverse(spec.reverse); }
                    if om & 4 == 0 { b = b.repeat(spec.repeat.to_mina()); }
                    if om & 2 == 0 { b = b.delay_seconds(spec.delay); }
                    if om & 1 == 0 { b = b.duration_seconds(spec.cycle); }
                }
                ::mina::TimelineBuilder::build(b)
            }
            #[allow(unused_assignments, unused_mut, unused_variables)]
            fn build_via_builder(spec: &$crate::spec::TlSpec) -> ::mina::MergedTimeline<$tl> {
                use ::mina::{Animate as _, KeyframeBuilder as _, TimelineConfigurationBuilder as _};
                // The builder calls commute, so the order they are made in varies with the specification
                // (deterministically: twins built from equal specifications are built identically): timing and
                // default easing before or after the keyframes, a keyframe's easing before, between or after
                // its value setters.
                let timing_last = (spec.kfs.len() / 2) % 2 == 1;
                let easing_last = spec.kfs.len() % 2 == 1;
                let mut b = <$anim>::timeline();
                if !timing_last {
                    let om = $crate::shapes::OMIT_TIMING.with(|o| o.get());
                    if om & 1 == 0 { b = b.duration_seconds(spec.cycle); }
                    if om & 2 == 0 { b = b.delay_seconds(spec.delay); }
                    if om & 4 == 0 { b = b.repeat(spec.repeat.to_mina()); }
                    if om & 8 == 0 { b = b.reverse(spec.reverse); }
                }
                if let (false, Some(e)) = (easing_last, &spec.default_easing) {
                    b = b.default_easing(e.make());
                }
                for (ki, kf) in spec.kfs.iter().enumerate() {
                    let mut k = <$anim>::keyframe(kf.pos);
                    let slot = ((kf.pos.to_bits() >> 3) as usize ^ ki.wrapping_mul(7)) % 3; // 0 last, 1 first, 2 after the first value
                    let mut pending = kf.easing.as_ref();
                    if slot == 1 {
                        if let Some(e) = pending.take() { k = k.easing(e.make()); }
                    }
                    let mut idx = 0usize;
                    let mut given = 0usize;
                    $(
                        if let Some(v) = kf.vals.get(idx).copied().flatten() {
                            k = k.$af(v as $aty);
                            given += 1;
                            if slot == 2 && given == 1 {
                                if let Some(e) = pending.take() { k = k.easing(e.make()); }
                            }
                        }
                        idx += 1;
                    )*
                    if let Some(e) = pending.take() {
                        k = k.easing(e.make());
                    }
                    b = b.keyframe(k);
                }
                if let (true, Some(e)) = (easing_last, &spec.default_easing) {
                    b = b.default_easing(e.make());
                }
                if timing_last {
                    let om = $crate::shapes::OMIT_TIMING.with(|o| o.get());
                    if om & 8 == 0 { b = b.reverse(spec.reverse); }
                    if om & 4 == 0 { b = b.repeat(spec.repeat.to_mina()); }
                    if om & 2 == 0 { b = b.delay_seconds(spec.delay); }
                    if om & 1 == 0 { b = b.duration_seconds(spec.cycle); }
                }
                ::mina::TimelineOrBuilder::build(b)
            }
            fn build_from_value(v: &Self, p: f32) -> $tl {
                use ::mina::{Animate as _, TimelineConfigurationBuilder as _};
                ::mina::TimelineBuilder::build(<$anim>::timeline().keyframe(<$anim>::keyframe_from(v, p)))
            }
        }
    };
}

macro_rules! shape_all {
    ($name:ident, $tl:ident { $($f:ident : $ty:ident = $k:ident),* }) => {
        #[derive(Animate, Clone, Debug, Default, PartialEq)]
        pub struct $name { $(pub $f: $ty),* }
        shape_impl!($name, $name, $tl, [$($f : $ty = $k),*], []);
    };
}

macro_rules! shape_marked {
    ($name:ident, $tl:ident { $($af:ident : $aty:ident = $ak:ident),* } plain { $($pf:ident : $pty:ident = $pk:ident),* }) => {
        #[derive(Animate, Clone, Debug, Default, PartialEq)]
        pub struct $name {
            $(
                /// An animated field (documented, and carrying an unrelated attribute before `#[animate]`).
                #[allow(dead_code)]
                #[animate]
                pub $af: $aty,
            )*
            $(
                /// A field excluded from animation.
                pub $pf: $pty
            ),*
        }
        shape_impl!($name, $name, $tl, [$($af : $aty = $ak),*], [$($pf : $pty = $pk),*]);
    };
}

shape_all!(S2, S2Timeline { a: f32 = F32, b: u8 = U8 });
shape_all!(S4, S4Timeline { a: f32 = F32, b: f32 = F32, c: i32 = I32, d: f64 = F64 });
shape_all!(S3, S3Timeline { u: u8 = U8, v: i16 = I16, w: u32 = U32 });
shape_all!(S1, S1Timeline { x: f32 = F32 });
shape_marked!(SM, SMTimeline { x: f32 = F32, z: u8 = U8, q: f64 = F64 } plain { y: f32 = F32, w: i32 = I32, r: u16 = U16 });
shape_marked!(SN, SNTimeline { m: i16 = I16 } plain { k: f32 = F32 });
shape_all!(S6, S6Timeline { a: f32 = F32, b: u8 = U8, c: i16 = I16, d: f64 = F64, e: u32 = U32, f: f32 = F32 });
// the remaining integer types Lerp is implemented for
shape_all!(S5, S5Timeline { p: i8 = I8, q: u16 = U16, r: i64 = I64, s: u64 = U64 });
/// A remote proxy with a marked subset: the animated type is `ext::SR`, the derive sits on `SRProxy`, and only the
/// fields marked on the proxy are animated (`y` and `j` are numeric, copyable — and excluded).
pub mod ext {
    #[derive(Clone, Debug, Default, PartialEq)]
    pub struct SR {
        pub x: f32,
        pub y: f32,
        pub k: i32,
        pub j: u8,
    }
}
pub use ext::SR;
#[derive(Animate)]
#[animate(remote = "SR")]
#[allow(dead_code)]
pub struct SRProxy {
    #[animate]
    x: f32,
    y: f32,
    #[animate]
    k: i32,
    j: u8,
}
shape_impl!(SR, SRProxy, SRTimeline, [x: f32 = F32, k: i32 = I32], [y: f32 = F32, j: u8 = U8]);
/// Number of shapes `with_shape!` dispatches over.
pub const N_SHAPES: usize = 8;

/// Dispatch helper: run a generic function over a shape chosen at run time.
#[macro_export]
macro_rules! with_shape {
    ($idx:expr, $f:ident ( $($arg:expr),* )) => {
        match $idx % 8 {
            7 => $f::<$crate::shapes::SR>($($arg),*),
            6 => $f::<$crate::shapes::S5>($($arg),*),
            0 => $f::<$crate::shapes::S2>($($arg),*),
            1 => $f::<$crate::shapes::S4>($($arg),*),
            2 => $f::<$crate::shapes::S3>($($arg),*),
            3 => $f::<$crate::shapes::SM>($($arg),*),
            4 => $f::<$crate::shapes::S6>($($arg),*),
            _ => $f::<$crate::shapes::S1>($($arg),*),
        }
    };
}

mod macro_anims {
    use super::{Anim, St, S4};
    #[allow(unused_imports)]
    use mina::prelude::*;

    /// Animators written with `animator!` (S4 = {a, b, c, d}); `animated[state]` lists the fields that state's timeline(s)
    /// have a keyframe for. Looping / reversing arms without a 0 % keyframe, arms with only timing words, merged arms and
    /// a state listed in two arms (the later arm wins) are all here.
    pub fn macro_animators() -> Vec<(&'static str, Anim<S4>, [Vec<usize>; 5])> {
        vec![
            (
                "looping arms without a 0 % keyframe",
                mina::animator!(S4 {
                    default(St::A, { a: 1.0, b: 2.0, c: 3, d: 4.0 }),
                    St::B => 1s to { b: 40.0 },
                    St::C => 2s infinite to { a: 10.0 },
                    St::D => 2s reverse 50% { c: 77 },
                    St::E => 1s 3x 25% { d: 9.5 } to { d: -3.0 }
                }),
                [vec![], vec![1], vec![0], vec![2], vec![3]],
            ),
            (
                "timing-only arm, merged arm, default keyframes",
                mina::animator!(S4 {
                    default(St::A, { a: -5.0, c: 100 }),
                    St::B => 0.5s infinite reverse,
                    St::C => [1s to { a: 3.0 }, 2s 2x after 0.5s 50% { c: 9 }],
                    St::D => 1s reverse from default to { a: 50.0, b: 6.0, c: 7, d: 8.0 },
                    St::E => 4s to { b: 1.5 }
                }),
                [vec![], vec![], vec![0, 2], vec![0, 1, 2, 3], vec![1]],
            ),
            (
                "a state listed in two arms: the later arm is its timeline",
                mina::animator!(S4 {
                    default(St::B, { a: 0.5, b: 0.25, c: -8, d: 16.0 }),
                    St::A | St::C | St::D => 1s infinite to { a: 9.0, b: 9.0 },
                    St::C => 2s 1x to { c: 500 },
                    St::E => 1s reverse 2x 10% { d: 1.0 } 90% { d: 2.0 }
                }),
                [vec![0, 1], vec![], vec![2], vec![0, 1], vec![3]],
            ),
        ]
    }
}
pub use macro_anims::macro_animators;
