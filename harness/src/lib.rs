//! `mina_verif` — workload generators, reference models, monitors and the evidence writer used to
//! decide the mina properties by runtime monitoring. The `mv` binary runs one check per property;
//! generated program families (C15–C17) link this library too.

pub mod checks;
pub mod genrt;
pub mod model;
pub mod shapes;
pub mod spec;
pub mod util;
