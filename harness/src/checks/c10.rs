//! C10 — a substituted start value only affects the first forward pass (twin comparison + model).

use crate::model::{agrees, frames, mprop, mscale_spec, Phase};
use crate::shapes::*;
use crate::spec::*;
use crate::util::*;
use crate::with_shape;
use mina::Timeline;

const STREAM: u64 = 1;

pub fn run(run: &mut Run) {
    run.rule = "generated timeline A and twin B = A + start_with(v) (v random, far from A's 0 % values), single and merged; \
        times dense in [-1, delay], in the first forward pass, the first reverse pass, later cycles up to 6 and cycle \
        2^10, and after the end, plus exact-regime boundaries; oracle: t <= delay => every keyframed property equals v \
        bit-exactly; first forward pass => B differs from A only before the property's first keyframe after 0 % and \
        there equals M-prop with the substituted 0 % frame; everywhere else B is bit-identical to A; non-trivial = a \
        keyframed property with v != its 0 % value; distinct = (timeline kind, phase class, before/after first keyframe, \
        merged?)"
        .into();
    run.assumptions = vec!["timelines in which one property has two keyframes at 0 % are generated but never judged (ambiguous)".into()];
    run.min_sigs = 30;
    let n: u64 = if run.thorough() { 1_000_000 } else { 100_000 };
    let seed = run.seed;
    let rc = run.replay_case();
    let verbose = rc.is_some();
    run.parallel(|w, nw, acc| {
        for i in my_cases(rc, STREAM, n, w, nw) {
            guarded(acc, "c10", STREAM, i, |acc| {
                let mut r = Rng::derive(seed, STREAM, i);
                let shape = r.usize(crate::shapes::N_SHAPES);
                with_shape!(shape, case(&mut r, acc, i, verbose));
            });
        }
    });
}

fn case<S: Shape>(r: &mut Rng, acc: &mut Acc, index: u64, verbose: bool) {
    let kinds = &S::KINDS[..S::N_ANIM];
    let spec = gen_tl(r, kinds, &GenOpts { neg_delay: true, shuffle: true, ..GenOpts::default() });
    // merged: 0 = plain timeline, 1 = the same timeline wrapped in a MergedTimeline, 2 = a merged timeline of
    // two components with disjoint property sets and independent timing (start_with must reach both)
    let merged = if S::N_ANIM >= 2 && r.chance(1, 5) { 2 } else if r.chance(1, 5) { 1 } else { 0 };
    let mut specs = vec![spec];
    if merged == 2 {
        let mut other = gen_tl(r, kinds, &GenOpts { neg_delay: true, shuffle: true, ..GenOpts::default() });
        for f in 0..S::N_ANIM {
            for k in specs[0].kfs.iter_mut() {
                if f % 2 == 1 { k.vals[f] = None; }
            }
            for k in other.kfs.iter_mut() {
                if f % 2 == 0 { k.vals[f] = None; }
            }
        }
        specs.push(other);
    }
    let owner = |f: usize| if merged == 2 { f % 2 } else { 0 };
    let v: Vec<f64> = S::KINDS.iter().map(|k| gen_value(r, *k)).collect();
    let vs = S::from_vals(&v);
    let (a_one, mut b_one) = (S::build_tl(&specs[0]), S::build_tl(&specs[0]));
    let (a_m, mut b_m) = (build_merged::<S>(&specs), build_merged::<S>(&specs));
    // one third of the cases: an earlier, different start_with first — the latest one must fully win
    let earlier = r.chance(1, 3);
    if earlier {
        let v0: Vec<f64> = S::KINDS.iter().map(|k| gen_value(r, *k)).collect();
        b_one.start_with(&S::from_vals(&v0));
        b_m.start_with(&S::from_vals(&v0));
    }
    b_one.start_with(&vs);
    b_m.start_with(&vs);
    let eval_a = |t: f32| {
        let mut x = S::default();
        if merged > 0 { a_m.update(&mut x, t) } else { a_one.update(&mut x, t) }
        x
    };
    let eval_b = |t: f32| {
        let mut x = S::default();
        if merged > 0 { b_m.update(&mut x, t) } else { b_one.update(&mut x, t) }
        x
    };
    let mut times: Vec<f32> = Vec::new();
    for spec in &specs {
        let (c, d) = (spec.cycle, spec.delay);
        times.extend_from_slice(&[-1.0, -0.25, 0.0, -0.0, d * 0.25, d * 0.5, d * 0.75, next_down(d), d]);
        let grid: Vec<f32> = (0..=32).map(|k| k as f32 / 32.0).collect();
        let ks: Vec<u32> = match spec.repeat {
            Rep::None | Rep::Times(0) => vec![0],
            Rep::Times(n) => (0..=n.min(6)).collect(),
            Rep::Infinite => vec![0, 1, 2, 3, 4, 5, 6, 1 << 10],
        };
        for k in ks {
            for g in &grid {
                times.push(d + c * (k as f32 + g));
            }
            for _ in 0..4 {
                times.push(d + c * (k as f32 + (r.below(4096) as f32 / 4096.0)));
            }
        }
        if let Some(n) = spec.repeat.cycles() {
            let total = d + c * n as f32;
            times.extend_from_slice(&[total, next_up(total), total + 0.5, total * 3.0 + 10.0, 1e8]);
        }
    }
    let frs: Vec<_> = (0..S::N_ANIM).map(|f| frames(&specs[owner(f)], f)).collect();
    let case = |t: f32, f: usize, clause: &str| {
        case_json(STREAM, index, vec![
            ("shape", J::s(S::NAME)), ("timelines", J::A(specs.iter().map(|s| s.json()).collect())), ("merged_kind", J::U(merged as u64)),
            ("start_with", J::A(v.iter().map(|x| J::F(*x)).collect())), ("t", J::F(t as f64)), ("field", J::s(S::FIELDS[f])), ("clause", J::s(clause)),
        ])
    };
    let mut sampled = false;
    for t in times {
        let (xa, xb) = (eval_a(t), eval_b(t));
        for f in 0..S::N_ANIM {
            let spec = &specs[owner(f)];
            let d = spec.delay;
            let m = mscale_spec(spec, t as f64);
            if m.phase == Phase::Active && (t >= 1.0e7 || (m.p as f32) as f64 != m.p || ((t - d) as f64) != t as f64 - d as f64) {
                // a probe time of the *other* component (its delay - ulp, its end + ulp, ...): outside this
                // component's exact regime, the implementation's f32 position need not equal the model's
                acc.count("skipped_inexact_time_for_other_component", 1);
                continue;
            }
            if !spec.exact_at(t) {
                acc.count("skipped_inexact_instant_of_non_dyadic_cycle", 1);
                continue;
            }
            let fr = &frs[f];
            if fr.is_empty() {
                continue;
            }
            let kind = S::KINDS[f];
            let zero_amb = fr.iter().filter(|x| x.pos == 0.0).count() > 1;
            if zero_amb {
                acc.count("ambiguous_two_keyframes_at_0%", 1);
                continue;
            }
            acc.eval();
            let (ga, gb) = (xa.get(f), xb.get(f));
            let same = xa.bits(f) == xb.bits(f) || (ga == 0.0 && gb == 0.0);
            let first_next = fr[1].pos; // position of the property's first keyframe after 0 %
            let (ok, clause, why): (bool, &str, String) = if m.phase == Phase::NotStarted || (t <= d) {
                // exactly v (as converted to the property type)
                let want = vs.bits(f);
                (xb.bits(f) == want || (gb == 0.0 && vs.get(f) == 0.0), "v-until-delay", format!("expected exactly v = {}", vs.get(f)))
            } else if m.phase == Phase::Active && m.subst {
                if m.p >= first_next {
                    (same, "unaffected-after-first-keyframe", format!("twin without start_with gives {ga}"))
                } else {
                    let e = mprop(spec, f, m.p, Some(v[f])).unwrap();
                    (agrees(kind, gb, &e), "blend-from-v", format!("model gives {} = lerp({}, {}, {}({}))", e.v, e.a, e.b, e.eas.name(), e.x))
                }
            } else {
                (same, "identical-to-plain-twin", format!("twin without start_with gives {ga}"))
            };
            if verbose {
                println!("  t={t} {} p={} field={} A={ga} B={gb} [{clause}] {}", m.class(), m.p, S::FIELDS[f], if ok { "ok" } else { "MISMATCH" });
            }
            if !ok {
                acc.violation(
                    format!("c10:{clause}:{}", m.class()),
                    format!("field {} at t={t} ({}, position {}): with start_with {gb}; {why}", S::FIELDS[f], m.class(), m.p),
                    case(t, f, clause),
                );
            } else if v[f] != fr[0].val {
                acc.sig(format!("{}|{}|{clause}|merged={merged}|earlier-start_with={earlier}", spec.kind_name(), m.class()));
                if !sampled && clause == "identical-to-plain-twin" && m.phase == Phase::Active {
                    sampled = true;
                    acc.sample(3, || case(t, f, clause));
                }
            }
        }
    }
}
