//! C07 — completion is reported exactly when the animation is over, and values then rest.

use crate::checks::anim::*;
use crate::shapes::*;
use crate::spec::*;
use crate::util::*;
use mina::StateAnimator;

const STREAM_POOL: u64 = 1;
const STREAM_RND: u64 = 2;

pub fn run(run: &mut Run) {
    let thorough = run.thorough();
    run.rule = "animator configurations from the fixed pool and random ones (finite, delayed, Times(n), reversing, \
        infinite, merged with heterogeneous totals and with one infinite component, un-animated; on-grid and off-grid \
        cycle/delay values); per state: advances landing exactly on the total duration, one grid step before/after it, \
        far beyond it, random histories; after is_ended first becomes true 50 further advances of mixed sizes; oracle: \
        is_ended == (no timeline or t >= total) with total computed by the monitor from the configuration (max over \
        components, infinite if any), never true with an infinite component (up to t = 1e6 s), monotone under advances, \
        and once true current_values bit-constant and equal to the twin timeline's terminal values; non-trivial = an \
        animated finite state observed on both sides of its end; distinct = (timeline kind, merged?, landed exactly?, \
        reversing?, on/off grid)"
        .into();
    run.assumptions = vec!["off-grid configurations: a band of 2 ulp around the end instant accepts either answer".into()];
    run.min_sigs = 20;
    let seed = run.seed;
    let rc = run.replay_case();
    let verbose = rc.is_some();
    let n_rnd: u64 = if thorough { 3_000_000 } else { 400_000 };
    let pool = fixed_pool();
    run.parallel(|w, nw, acc| {
        for i in my_cases(rc, STREAM_POOL, pool.len() as u64 * 5, w, nw) {
            guarded(acc, "c07", STREAM_POOL, i, |acc| {
                let mut r = Rng::derive(seed, STREAM_POOL, i);
                case::<S4>(&pool[(i / 5) as usize], (i % 5) as usize, &mut r, acc, STREAM_POOL, i, verbose);
            });
        }
        for i in my_cases(rc, STREAM_RND, n_rnd, w, nw) {
            guarded(acc, "c07", STREAM_RND, i, |acc| {
                let mut r = Rng::derive(seed, STREAM_RND, i);
                let shape = r.usize(crate::shapes::N_SHAPES);
                crate::with_shape!(shape, random_case(&mut r, acc, i, verbose));
            });
        }
    });
}

fn random_case<S: Shape>(r: &mut Rng, acc: &mut Acc, index: u64, verbose: bool) {
    let mut spec = random_anim::<S>(r);
    // off-grid timing now and then, and merged states with an infinite component
    if r.chance(1, 3) {
        for st in spec.states.iter_mut() {
            for t in st.iter_mut() {
                if r.chance(1, 2) {
                    t.cycle = (0.05 + r.unit() * 3.0) as f32;
                    t.delay = if r.chance(1, 2) { 0.0 } else { (r.unit() * 2.0) as f32 };
                }
            }
        }
    }
    let mut st = r.usize(5);
    // the largest finite repeat count: 2^32 cycles of 1/512 s or 1/64 s are over after 2^23 s / 2^26 s (both exact)
    if r.chance(1, 10) {
        if let Some(k) = (0..5).map(|d| (st + d) % 5).find(|k| spec.animated(*k)) {
            st = k;
            let t = &mut spec.states[k][0];
            t.repeat = Rep::Times(u32::MAX);
            t.cycle = *r.pick(&[1.0f32 / 512.0, 1.0 / 64.0]);
            t.delay = *r.pick(&[0.0f32, 0.25]);
        }
    }
    case::<S>(&spec, st, r, acc, STREAM_RND, index, verbose);
}

fn case<S: Shape>(spec: &AnimSpec, st: usize, r: &mut Rng, acc: &mut Acc, stream: u64, index: u64, verbose: bool) {
    let total = if spec.animated(st) { Some(spec.total(st)) } else { None };
    // exact comparison only when every component's total duration is itself exactly representable in f32
    let on_grid = spec.states[st].iter().all(|t| {
        (t.cycle * 512.0).fract() == 0.0 && (t.delay * 512.0).fract() == 0.0 && (t.total().is_infinite() || (t.total() as f32) as f64 == t.total())
    });
    // pre-history to reach the state through different predecessors
    let pre = r.usize(6);
    let mut ops: Vec<Op> = random_history(r, pre, true);
    ops.push(Op::Set((st + 1) % 5));
    ops.push(Op::Adv(0.125));
    ops.push(Op::Set(st));
    // one case in four: the state under test is entered, interrupted by an un-animated state part-way
    // and resumed (the end must then be reported relative to the resumed position)
    let idle = (0..5).find(|s| !spec.animated(*s));
    let mut resumed_part = 0.0f64;
    if let (Some(idle), Some(t), true) = (idle, total, r.chance(1, 4)) {
        if t.is_finite() && t >= 2.0 / 512.0 && idle != st {
            let part = ((t * 512.0 * r.unit()).floor() / 512.0).min(t - 1.0 / 512.0).max(0.0);
            ops.push(Op::Adv(part as f32));
            ops.push(Op::Set(idle));
            ops.push(Op::Adv(0.125));
            ops.push(Op::Set(st));
            resumed_part = part;
        }
    }
    let entry = ops.len();
    // schedule of advances after entering `st`
    let mut advs: Vec<f32> = Vec::new();
    let mode = r.below(5);
    let total_rem = total.map(|t| if t.is_finite() { t - resumed_part } else { t });
    match (total_rem, mode) {
        (Some(t), 0) if t.is_finite() => {
            // land exactly on the total
            advs.push(t as f32);
        }
        (Some(t), 1) if t.is_finite() && t > 1.0 / 512.0 => {
            // one grid step before, then exactly on it, then one step after
            advs.push((t - 1.0 / 512.0) as f32);
            advs.push(1.0 / 512.0);
            advs.push(1.0 / 512.0);
        }
        (Some(t), 2) if t.is_finite() => {
            // several steps summing past the end
            let k = 1 + r.usize(7);
            for _ in 0..k {
                advs.push((t / k as f64) as f32);
            }
            advs.push(0.0);
        }
        (Some(_), 4) => {
            // an ordinary step, then one longer than anything (beyond 2^64 s, what a Duration holds)
            advs.push(*r.pick(&[0.001953125f32, 0.125, 0.5]));
            advs.push(*r.pick(&[1.9e19f32, 1.0e20, 3.0e30, f32::MAX]));
        }
        _ => {
            for _ in 0..(3 + r.usize(10)) {
                advs.push(*r.pick(&[0.0f32, 0.001953125, 0.125, 0.5, 1.0, 7.5, 64.0]));
            }
        }
    }
    // tail: further advances of mixed sizes, far beyond the end
    for j in 0..50 {
        advs.push(match j % 7 {
            0 => 0.0,
            1 => 0.001953125,
            2 => 0.3,
            3 => 1.0,
            4 => 100.0,
            5 => (r.unit() * 5.0) as f32,
            _ => 12345.0,
        });
    }
    advs.push(1.0e6);
    advs.push(1.0e8);
    advs.push(1.0e10);
    advs.push(1.0e20);
    advs.push(0.0);
    advs.push(f32::MAX);
    ops.extend(advs.iter().map(|d| Op::Adv(*d)));
    let mut real = build_anim::<S>(spec);
    let mut model = MAnim::<S>::new(spec);
    let case = |k: usize, what: &str| {
        case_json(stream, index, vec![("shape", J::s(S::NAME)), ("animator", spec.json()), ("state_under_test", J::U(st as u64)), ("ops", ops_json(&ops)), ("failing_op_index", J::U(k as u64)), ("clause", J::s(what))])
    };
    let mut ended_at: Option<usize> = None;
    let mut rest: Option<S> = None;
    let mut saw_not_ended = false;
    let mut landed_exact = false;
    for (k, op) in ops.iter().enumerate() {
        // values are C05's subject: the model continues from the values actually observed, so that a
        // last-bit difference earlier in the history cannot masquerade as a wrong terminal value later
        model.values = real.current_values().clone();
        apply_real::<S>(&mut real, *op);
        model.apply(*op);
        if k < entry - 1 {
            continue;
        }
        acc.eval();
        let e = real.is_ended();
        let want = model.is_ended();
        if verbose {
            let (t_in, pause) = real.verif_snapshot();
            println!("  #{k} {:?}: is_ended {e} (model {want}) hook time {:?} pause {:?} | model t {:?} pause {:?} total {:?}", op, t_in, pause.map(|(s, d)| (s.idx(), d)), model.t, model.pause, total);
        }
        let band = model.ended_in_band() && (!on_grid || !model.clock.exact);
        if e != want && !band {
            acc.violation(
                format!("c07:is_ended:{}", if want { "late" } else { "early" }),
                format!("after op #{k} {:?}: is_ended() = {e} with {:?} in state {} whose total duration is {:?}", op, model.t, ["A", "B", "C", "D", "E"][st], total),
                case(k, "is_ended exactly when t >= total"),
            );
            return;
        }
        if let Some(t) = total {
            if (model.t.as_secs_f32() as f64) == t {
                landed_exact = true;
            }
            if t.is_infinite() && e {
                acc.violation("c07:infinite-ended", format!("is_ended() = true for a state with an infinitely repeating component after {:?}", model.t), case(k, "never ended when infinite"));
                return;
            }
        }
        if !e {
            saw_not_ended = true;
            if ended_at.is_some() && !band {
                acc.violation("c07:not-monotone", format!("is_ended went back to false at op #{k} {:?}", op), case(k, "once true stays true"));
                return;
            }
        } else if ended_at.is_none() && !band {
            ended_at = Some(k);
            rest = Some(real.current_values().clone());
            // equal to the terminal values of the timeline: by the configuration (last frame of each property, first
            // frame when reversing, later components over earlier ones) ...
            if k >= entry && total.map(|t| t.is_finite()).unwrap_or(false) {
                for f in 0..S::N_ANIM {
                    // (where the property has several keyframes AT the resting position, which of them "the 100 %
                    // value" is lies outside the statements — C02 sets keyframe hits on repeated positions aside —
                    // and any of them is accepted)
                    let mut want: Vec<f64> = Vec::new();
                    for comp in &spec.states[st] {
                        if comp.defines(f) {
                            let fr = crate::model::frames(comp, f);
                            let rest = if comp.reverse { fr.first().map(|x| x.pos) } else { fr.last().map(|x| x.pos) };
                            want = fr.iter().filter(|x| Some(x.pos) == rest).map(|x| x.val).collect();
                        }
                    }
                    if let Some(w) = want.last().copied() {
                        if !want.iter().any(|w| crate::model::agrees_exact(S::KINDS[f], real.current_values().get(f), *w)) {
                            acc.violation(
                                "c07:terminal-values-by-configuration",
                                format!("is_ended() became true at op #{k} but field {} is {} where the configured terminal value ({}) is {w}", S::FIELDS[f], real.current_values().get(f), if spec.states[st].iter().any(|c| c.reverse) { "0 % of a reversing component / 100 %" } else { "100 %" }),
                                case(k, "values rest at the terminal values"),
                            );
                            return;
                        }
                    }
                }
            }
            // ... and by a twin timeline evaluated far beyond the end
            if let Some(term) = model.terminal() {
                if !same_all(&term, real.current_values()) && k >= entry {
                    // entering an already-ended situation only happens via advance; at the set_state
                    // itself (k == entry-1) values are the blended start values by C04.
                    acc.violation(
                        "c07:terminal-values",
                        format!("is_ended() became true at op #{k} but current_values {:?} are not the timeline's terminal values {:?}", real.current_values().vals(), term.vals()),
                        case(k, "values rest at the terminal values"),
                    );
                    return;
                }
            }
        } else if let (Some(rv), true) = (&rest, k >= entry) {
            let cur = real.current_values();
            // constant under all further advances; (the first ended observation at the set_state
            // itself precedes any evaluation, so re-anchor on the first advance)
            if ended_at == Some(entry - 1) && k == entry {
                if let Some(term) = model.terminal() {
                    if !same_all(&term, cur) {
                        acc.violation("c07:terminal-values", format!("ended state: current_values {:?} differ from the terminal values {:?}", cur.vals(), term.vals()), case(k, "values rest at the terminal values"));
                        return;
                    }
                }
                rest = Some(cur.clone());
            } else if !same_all(rv, cur) {
                acc.violation(
                    "c07:values-move-after-end",
                    format!("current_values changed after the end: {:?} -> {:?} at op #{k} {:?}", rv.vals(), cur.vals(), op),
                    case(k, "advance has no effect after the end"),
                );
                return;
            }
        }
    }
    if let Some(t) = total {
        if t.is_finite() && saw_not_ended && ended_at.is_some() {
            let sp = &spec.states[st];
            acc.sig(format!("{}|merged={}|exact={landed_exact}|grid={on_grid}|resumed={}", sp[0].kind_name(), sp.len() > 1, resumed_part > 0.0));
            acc.sample(3, || case(ended_at.unwrap(), "is_ended first true here; values constant for the remaining advances"));
        } else if t.is_infinite() {
            acc.sig(format!("infinite|merged={}", spec.states[st].len() > 1));
        }
    } else {
        acc.sig("idle-state-always-ended");
    }
}
