//! C01 — CSS-style per-property keyframe interpolation (history + executable model).
//!
//! Real derive-generated timelines are built through the real builder from random keyframe sets
//! (sparse properties, repeated positions, arbitrary f32 positions, per-keyframe / default easings,
//! exact-regime timing, optional `start_with`) and evaluated at times that map *exactly* to probe
//! positions in every phase. Oracle: M-scale ∘ M-prop.

use crate::model::{agrees, mprop, mscale_spec, Phase};
use crate::shapes::Shape;
use crate::spec::*;
use crate::util::*;
use crate::with_shape;
use mina::Timeline;

const STREAM_RANDOM: u64 = 1;
const STREAM_SMALL: u64 = 2;

pub fn run(run: &mut Run) {
    run.rule = "random keyframe sets (0-8 keyframes, sparse properties, repeated and arbitrary-f32 positions, \
        per-keyframe/default easings incl. recording custom easings, exact-regime timing, optional start_with; keyframes added \
        in ascending order, fully shuffled, or with one straggler added last; builder setters called in varying order) on 8 \
        derive(Animate) shapes built through the real builder, plus an exhaustive small scope; each timeline is \
        evaluated at times mapping exactly to the 1/4,1/2,3/4 points of every property segment and to random k/4096 \
        positions in the first forward pass, a reverse pass, later cycles, before the delay and after the end; \
        oracle M-scale∘M-prop. non-trivial = position strictly inside a segment whose ends differ; distinct = \
        (#keyframes, segment kind, easing source, phase, substitution in force, int/float, sparse?) signature"
        .into();
    run.assumptions = vec![
        "easing curves are treated as uninterpreted functions (their shape is C13's subject)".into(),
        "timing restricted to the dyadic exact regime so implementation and model positions coincide exactly (inexact timing is C03's subject)".into(),
        "std f32 arithmetic and rustc are trusted".into(),
    ];
    run.min_sigs = 40;
    let n_random: u64 = if run.thorough() { 1_500_000 } else { 240_000 };
    let seed = run.seed;
    let rc = run.replay_case();
    let verbose = rc.is_some();
    run.parallel(|w, nw, acc| {
        for i in my_cases(rc, STREAM_RANDOM, n_random, w, nw) {
            guarded(acc, "c01", STREAM_RANDOM, i, |acc| {
                let mut r = Rng::derive(seed, STREAM_RANDOM, i);
                let shape = r.usize(crate::shapes::N_SHAPES);
                with_shape!(shape, random_case(&mut r, acc, i, verbose));
            });
        }
    });
    // exhaustive small scope: keyframe sequences (any insertion order) with <= 2 (quick) / 3 (thorough) keyframes over
    // positions {0, 1/4, 1/2, 1}, two properties each defined / omitted, easing {none, E1}.
    let max_kf = if run.thorough() { 3 } else { 2 };
    let small = small_scope(max_kf);
    let n_small = small.len() as u64;
    run.extra.push(("small_scope_keyframe_sets".into(), J::U(n_small)));
    run.extra.push(("small_scope_exhaustive".into(), J::B(true)));
    run.parallel(|w, nw, acc| {
        for i in my_cases(rc, STREAM_SMALL, n_small, w, nw) {
            let spec = &small[i as usize];
            guarded(acc, "c01", STREAM_SMALL, i, |acc| {
                check_timeline::<crate::shapes::S2>(spec, None, acc, STREAM_SMALL, i, verbose, &mut Rng::derive(seed, STREAM_SMALL, i));
            });
        }
    });
}

fn small_scope(max_kf: usize) -> Vec<TlSpec> {
    let poss = [0.0f32, 0.25, 0.5, 1.0];
    // per keyframe: position (4) x a defined? (2) x b defined? (2) x easing? (2) = 32 variants
    let mut variants = Vec::new();
    for (pi, p) in poss.iter().enumerate() {
        for mask in 0..4u32 {
            for e in 0..2 {
                variants.push((pi, *p, mask, e));
            }
        }
    }
    let mut out = Vec::new();
    let mut idxs: Vec<usize> = vec![];
    fn rec(
        variants: &[(usize, f32, u32, i32)],
        idxs: &mut Vec<usize>,
        max_kf: usize,
        out: &mut Vec<TlSpec>,
    ) {
        // emit current
        let mut kfs = Vec::new();
        for (n, vi) in idxs.iter().enumerate() {
            let (_, p, mask, e) = variants[*vi];
            // non-collinear, distinct values per keyframe index
            let va = [10.0, 250.0, -40.0, 700.0][n % 4] + n as f64;
            let vb = [70.0, 180.0, 95.0, 130.0][n % 4];
            kfs.push(KfSpec {
                pos: p,
                vals: vec![
                    if mask & 1 != 0 { Some(va) } else { None },
                    if mask & 2 != 0 { Some(vb) } else { None },
                ],
                easing: if e == 1 { Some(Eas::Builtin(8 + n)) } else { None },
            });
        }
        for (cycle, delay, repeat, reverse) in
            [(1.0f32, 0.0f32, Rep::None, false), (2.0, 0.5, Rep::Times(1), true)]
        {
            out.push(TlSpec { cycle, delay, repeat, reverse, default_easing: Some(Eas::Builtin(3)), kfs: kfs.clone() });
        }
        if idxs.len() == max_kf {
            return;
        }
        for vi in 0..variants.len() {
            // any insertion order (repeated positions allowed)
            idxs.push(vi);
            rec(variants, idxs, max_kf, out);
            idxs.pop();
        }
    }
    rec(&variants, &mut idxs, max_kf, &mut out);
    out
}

fn random_case<S: Shape>(r: &mut Rng, acc: &mut Acc, index: u64, verbose: bool) {
    let kinds = &S::KINDS[..S::N_ANIM];
    // keyframes are not always added in ascending order (GenOpts::shuffle)
    let spec = gen_tl(r, kinds, &GenOpts { neg_delay: true, shuffle: true, ..GenOpts::default() });
    let subst: Option<Vec<f64>> = if r.chance(1, 2) {
        Some(S::KINDS.iter().map(|k| gen_value(r, *k)).collect())
    } else {
        None
    };
    check_timeline::<S>(&spec, subst.as_deref(), acc, STREAM_RANDOM, index, verbose, r);
}

/// Probe positions with <= 12 fractional bits: segment quarter points of every property + random.
fn probe_positions<S: Shape>(spec: &TlSpec, r: &mut Rng) -> Vec<f32> {
    let mut ps: Vec<f32> = Vec::new();
    let q = |x: f64| ((x * 4096.0).round() / 4096.0) as f32;
    for f in 0..S::N_ANIM {
        let fr = crate::model::frames(spec, f);
        for w in fr.windows(2) {
            if w[1].pos > w[0].pos {
                for t in [0.25, 0.5, 0.75] {
                    let p = q(w[0].pos + t * (w[1].pos - w[0].pos));
                    if (p as f64) > w[0].pos && (p as f64) < w[1].pos {
                        ps.push(p);
                    }
                }
            }
        }
    }
    for _ in 0..6 {
        ps.push(r.below(4097) as f32 / 4096.0);
    }
    ps.sort_by(|a, b| a.total_cmp(b));
    ps.dedup();
    if ps.len() > 40 {
        // thin deterministically
        let step = ps.len() as f64 / 40.0;
        ps = (0..40).map(|i| ps[(i as f64 * step) as usize]).collect();
    }
    ps
}

pub fn check_timeline<S: Shape>(
    spec: &TlSpec,
    subst: Option<&[f64]>,
    acc: &mut Acc,
    stream: u64,
    index: u64,
    verbose: bool,
    r: &mut Rng,
) {
    let mut tl = S::build_tl(spec);
    if let Some(v) = subst {
        // the substitution in force is the latest one: now and then an earlier, different substitution (and an
        // evaluation under it) precede it
        if index % 3 == 1 {
            let other: Vec<f64> = v.iter().map(|x| if *x == 0.0 { 7.0 } else { (x * 0.5).trunc() - 3.0 }).collect();
            tl.start_with(&S::from_vals(&other));
            let mut scratch = S::default();
            tl.update(&mut scratch, spec.delay + spec.cycle * 0.03125);
        }
        tl.start_with(&S::from_vals(v));
    }
    let positions = probe_positions::<S>(spec, r);
    // times: exact regime => t = delay + cycle*(k + rho) maps exactly to position p
    let mut times: Vec<f32> = vec![-0.5, spec.delay * 0.5];
    let ks: Vec<u32> = match spec.repeat {
        Rep::None | Rep::Times(0) => vec![0],
        Rep::Times(n) => vec![0, 1.min(n), n],
        Rep::Infinite => vec![0, 1, 2, 37],
    };
    for k in &ks {
        for p in &positions {
            if spec.reverse {
                times.push(spec.delay + spec.cycle * (*k as f32 + p / 2.0));
                times.push(spec.delay + spec.cycle * (*k as f32 + 1.0 - p / 2.0));
            } else {
                times.push(spec.delay + spec.cycle * (*k as f32 + p));
            }
        }
    }
    if let Some(n) = spec.repeat.cycles() {
        times.push(spec.delay + spec.cycle * n as f32 + 0.25);
    }
    let case = |extra: Vec<(&str, J)>| {
        let mut kv = vec![
            ("shape", J::s(S::NAME)),
            ("timeline", spec.json()),
            ("start_with", subst.map(|v| J::A(v.iter().map(|x| J::F(*x)).collect())).unwrap_or(J::Null)),
        ];
        kv.extend(extra);
        case_json(stream, index, kv)
    };
    let mut sampled = false;
    for t in times {
        if !spec.exact_at(t) {
            // a cycle that is not a power of two and an instant whose position is not exact in f32
            acc.count("skipped_inexact_instant_of_non_dyadic_cycle", 1);
            continue;
        }
        let m = mscale_spec(spec, t as f64);
        let mut target = S::default();
        // sentinel contents: results must not depend on them
        for i in 0..S::n() {
            target.set(i, 77.0);
        }
        rec_log_take();
        tl.update(&mut target, t);
        let log = rec_log_take();
        for f in 0..S::N_ANIM {
            let sub = if m.subst { subst.map(|v| v[f]) } else { None };
            let Some(e) = mprop(spec, f, m.p, sub) else { continue };
            acc.eval();
            if e.ambiguous {
                acc.count("ambiguous_repeated_position", 1);
                continue;
            }
            let got = target.get(f);
            let kind = S::KINDS[f];
            let mut ok = agrees(kind, got, &e);
            let mut why = String::new();
            if !ok {
                why = format!(
                    "field {} ({:?}) at t={} (position {} {}): observed {} but model gives {} = lerp({}, {}, {}({}))",
                    S::FIELDS[f], kind, t, m.p, m.class(), got, e.v, e.a, e.b, e.eas.name(), e.x
                );
            }
            // recording easing: the segment's starting keyframe's easing must have been called with x
            if ok && e.nontrivial {
                if let Eas::Rec(id) = e.eas {
                    let hit = log.iter().any(|(i, x)| *i == id && (*x as f64 - e.x).abs() <= 1e-5);
                    if !hit {
                        ok = false;
                        why = format!(
                            "field {} at t={}: custom easing Rec({id}) of the segment's starting keyframe was not called with x={} (calls: {:?})",
                            S::FIELDS[f], t, e.x, &log[..log.len().min(8)]
                        );
                    }
                }
            }
            if e.nontrivial {
                acc.sig(format!(
                    "kf{}|{:?}|{:?}|{}|subst={}|{}|{}",
                    spec.kfs.len().min(5),
                    e.seg,
                    e.src,
                    m.class(),
                    sub.is_some(),
                    if kind.is_int() { "int" } else { "float" },
                    if spec.kfs.iter().any(|k| k.vals[f].is_none()) { "sparse" } else { "dense" }
                ));
            }
            if verbose {
                println!(
                    "  t={t} phase={} p={} field={} observed={} model={} seg={:?} eas={} x={} {}",
                    m.class(), m.p, S::FIELDS[f], got, e.v, e.seg, e.eas.name(), e.x, if ok { "ok" } else { "MISMATCH" }
                );
            }
            if !ok {
                let key = format!("c01:{:?}:{}", e.seg, if m.phase == Phase::Active { "active" } else { "edge" });
                acc.violation(key, why, case(vec![("t", J::F(t as f64)), ("field", J::s(S::FIELDS[f]))]));
            } else if !sampled && e.nontrivial {
                sampled = true;
                acc.sample(3, || {
                    case(vec![
                        ("t", J::F(t as f64)),
                        ("field", J::s(S::FIELDS[f])),
                        ("observed", J::F(got)),
                        ("model", J::F(e.v)),
                        ("phase", J::s(m.class())),
                    ])
                });
            }
        }
    }
}
