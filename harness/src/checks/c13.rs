//! C13 — easing curves: endpoints, range, monotonicity, symmetry, definitions.
//!
//! Sweep of `Easing::calc` over the f32 values of [0,1] for all 29 built-in variants (every float in
//! thorough; stride 257 plus the 65 536 floats next to 0 and to 1 in quick). The *definition* clause
//! compares against the harness's own table of published control points, solving Bx(t)=x in f64.

use crate::spec::*;
use crate::util::*;
use mina::{Easing, EasingFunction};

/// Published control points (x1, y1, x2, y2): CSS Easing 1 for Ease/In/Out/InOut, easings.net for
/// the rest. This table is part of the trusted base (copied from the publications, not from mina).
pub const PUBLISHED: [(f64, f64, f64, f64); 29] = [
    (0.0, 0.0, 1.0, 1.0),     // Linear (identity)
    (0.25, 0.1, 0.25, 1.0),   // ease
    (0.42, 0.0, 1.0, 1.0),    // ease-in
    (0.0, 0.0, 0.58, 1.0),    // ease-out
    (0.42, 0.0, 0.58, 1.0),   // ease-in-out
    (0.12, 0.0, 0.39, 0.0),   // easeInSine
    (0.61, 1.0, 0.88, 1.0),   // easeOutSine
    (0.37, 0.0, 0.63, 1.0),   // easeInOutSine
    (0.11, 0.0, 0.5, 0.0),    // easeInQuad
    (0.5, 1.0, 0.89, 1.0),    // easeOutQuad
    (0.45, 0.0, 0.55, 1.0),   // easeInOutQuad
    (0.32, 0.0, 0.67, 0.0),   // easeInCubic
    (0.33, 1.0, 0.68, 1.0),   // easeOutCubic
    (0.65, 0.0, 0.35, 1.0),   // easeInOutCubic
    (0.5, 0.0, 0.75, 0.0),    // easeInQuart
    (0.25, 1.0, 0.5, 1.0),    // easeOutQuart
    (0.76, 0.0, 0.24, 1.0),   // easeInOutQuart
    (0.64, 0.0, 0.78, 0.0),   // easeInQuint
    (0.22, 1.0, 0.36, 1.0),   // easeOutQuint
    (0.83, 0.0, 0.17, 1.0),   // easeInOutQuint
    (0.7, 0.0, 0.84, 0.0),    // easeInExpo
    (0.16, 1.0, 0.3, 1.0),    // easeOutExpo
    (0.87, 0.0, 0.13, 1.0),   // easeInOutExpo
    (0.55, 0.0, 1.0, 0.45),   // easeInCirc
    (0.0, 0.55, 0.45, 1.0),   // easeOutCirc
    (0.85, 0.0, 0.15, 1.0),   // easeInOutCirc
    (0.36, 0.0, 0.66, -0.56), // easeInBack
    (0.34, 1.56, 0.64, 1.0),  // easeOutBack
    (0.68, -0.6, 0.32, 1.6),  // easeInOutBack
];

/// (In, Out) pairs and self-mirrored InOut variants, by index into BUILTIN_NAMES.
const PAIRS: [(usize, usize); 10] =
    [(2, 3), (5, 6), (8, 9), (11, 12), (14, 15), (17, 18), (20, 21), (23, 24), (26, 27), (0, 0)];
const SELF_MIRROR: [usize; 9] = [4, 7, 10, 13, 16, 19, 22, 25, 28];

fn bez(a: f64, b: f64, t: f64) -> f64 {
    // cubic Bezier coordinate with end points 0 and 1 and control values a, b
    let u = 1.0 - t;
    3.0 * u * u * t * a + 3.0 * u * t * t * b + t * t * t
}

/// The cubic Bezier *timing function*: y at horizontal position x.
pub fn timing_function(cp: (f64, f64, f64, f64), x: f64) -> f64 {
    let (x1, y1, x2, y2) = cp;
    let (mut lo, mut hi) = (0.0f64, 1.0f64);
    for _ in 0..60 {
        let mid = 0.5 * (lo + hi);
        if bez(x1, x2, mid) < x {
            lo = mid;
        } else {
            hi = mid;
        }
    }
    bez(y1, y2, 0.5 * (lo + hi))
}

/// Signature of finding F3: the curve's y at *parameter* t = x.
fn y_at_parameter(cp: (f64, f64, f64, f64), x: f64) -> f64 {
    bez(cp.1, cp.3, x)
}

#[derive(Default, Clone)]
struct VarStat {
    def_max_dev: f64,
    def_worst_x: f32,
    sig_max_dev: f64,
    sig_worst_x: f32,
    n: u64,
}

const STREAM: u64 = 1;

pub fn run(run: &mut Run) {
    let thorough = run.thorough();
    run.rule = "all 29 built-in easings x f32 values of [0,1] (thorough: every float, 1 065 353 217 per easing; quick: \
        stride 257 plus the 65 536 floats nearest 0 and nearest 1); clauses: exact endpoints, range and \
        monotonicity between consecutive swept floats (non-Back), Linear identity, In/Out point-mirror and InOut \
        self-mirror, Custom used as given, and the definition (published control points, Bx(t)=x solved in f64) on a \
        subgrid; non-trivial = an interior x; distinct = (easing, clause, x-decade) triples observed"
        .into();
    run.assumptions = vec![
        "the published control-point table embedded in the harness (CSS Easing 1, easings.net)".into(),
        "monotonicity/range slack 1e-6 for f32 evaluation of a cubic ('to float rounding')".into(),
    ];
    run.min_sigs = 100;
    let rc = run.replay_case();
    let stride: u32 = if thorough { 1 } else { 257 };
    let one = 1.0f32.to_bits();
    let def_step: u32 = if thorough { 1 << 8 } else { 1 << 16 };
    let stats = std::sync::Mutex::new(vec![VarStat::default(); 29]);
    let easings: Vec<Easing> = (0..29).map(builtin).collect();
    run.parallel(|w, nw, acc| {
        let mut local = vec![VarStat::default(); 29];
        // contiguous block of the bit range [0, one]
        let span = (one as u64 + 1) / nw as u64;
        let lo = span * w as u64;
        let hi = if w == nw - 1 { one as u64 + 1 } else { span * (w as u64 + 1) };
        for (ei, e) in easings.iter().enumerate() {
            if let Some((_, i)) = rc {
                if i != ei as u64 {
                    continue;
                }
            }
            let cp = PUBLISHED[ei];
            let back = ei >= 26;
            let name = BUILTIN_NAMES[ei];
            let case = |x: f32, clause: &str| {
                case_json(STREAM, ei as u64, vec![("easing", J::s(name)), ("x", J::F(x as f64)), ("x_bits", J::U(x.to_bits() as u64)), ("clause", J::s(clause))])
            };
            let mut prev: Option<(f32, f32)> = None;
            let visit = |b: u32, acc: &mut Acc, prev: &mut Option<(f32, f32)>, st: &mut VarStat| {
                let x = f32::from_bits(b);
                let y = e.calc(x);
                acc.eval();
                st.n += 1;
                if !y.is_finite() {
                    acc.violation(format!("c13:nonfinite:{name}"), format!("{name}.calc({x}) = {y}"), case(x, "finite"));
                    return;
                }
                if ei == 0 && y.to_bits() != x.to_bits() {
                    acc.violation("c13:linear", format!("Linear.calc({x}) = {y}"), case(x, "linear-identity"));
                }
                if !back {
                    if !(-1e-6..=1.0 + 1e-6).contains(&y) {
                        acc.violation(format!("c13:range:{name}"), format!("{name}.calc({x}) = {y} outside [0,1]"), case(x, "range"));
                    }
                    if let Some((px, py)) = *prev {
                        if y < py - 1e-6 {
                            acc.violation(format!("c13:monotone:{name}"), format!("{name}: calc({px}) = {py} > calc({x}) = {y}"), case(x, "monotone"));
                        }
                    }
                }
                *prev = Some((x, y));
                // finding signature on every swept float (cheap)
                let s = (y as f64 - y_at_parameter(cp, x as f64)).abs();
                if s > st.sig_max_dev {
                    st.sig_max_dev = s;
                    st.sig_worst_x = x;
                }
                // mirror relations
                let xm = 1.0 - x;
                if let Some((_, o)) = PAIRS.iter().find(|(i, _)| *i == ei && ei != 0) {
                    let yo = easings[*o].calc(xm);
                    acc.eval();
                    if (yo as f64 - (1.0 - y as f64)).abs() > 2e-6 {
                        acc.violation(format!("c13:pair:{name}"), format!("{}.calc({xm}) = {yo} is not 1 - {name}.calc({x}) = {}", BUILTIN_NAMES[*o], 1.0 - y), case(x, "in-out-mirror"));
                    }
                }
                if SELF_MIRROR.contains(&ei) {
                    let ym = e.calc(xm);
                    acc.eval();
                    if (ym as f64 - (1.0 - y as f64)).abs() > 2e-6 {
                        acc.violation(format!("c13:selfmirror:{name}"), format!("{name}.calc({xm}) = {ym} is not 1 - {name}.calc({x}) = {}", 1.0 - y), case(x, "inout-self-mirror"));
                    }
                }
                if b % def_step == 0 || b == one {
                    let d = (y as f64 - timing_function(cp, x as f64)).abs();
                    acc.eval();
                    if d > st.def_max_dev {
                        st.def_max_dev = d;
                        st.def_worst_x = x;
                    }
                    if x > 0.0 && x < 1.0 {
                        acc.sig(format!("{name}|x~1e{}", (x.log10().floor() as i32).max(-12)));
                    }
                }
            };
            let mut b = lo + (stride as u64 - lo % stride as u64) % stride as u64;
            while b < hi {
                visit(b as u32, acc, &mut prev, &mut local[ei]);
                b += stride as u64;
            }
            if !thorough && w == 0 {
                // neighbourhoods of 0 and 1: the 65 536 nearest floats, consecutive
                prev = None;
                for b in 0..65536u32 {
                    visit(b, acc, &mut prev, &mut local[ei]);
                }
                prev = None;
                for b in (one - 65536)..=one {
                    visit(b, acc, &mut prev, &mut local[ei]);
                }
            }
            if w == 0 {
                // endpoints, exact
                let (y0, y1) = (e.calc(0.0), e.calc(1.0));
                acc.evals(2);
                if !(y0 == 0.0) {
                    acc.violation(format!("c13:endpoint0:{name}"), format!("{name}.calc(0) = {y0}"), case(0.0, "endpoint-0"));
                }
                if y1.to_bits() != 1.0f32.to_bits() {
                    acc.violation(format!("c13:endpoint1:{name}"), format!("{name}.calc(1) = {y1}"), case(1.0, "endpoint-1"));
                }
                acc.sample(4, || case(0.25, &format!("calc(0.25) = {}, timing function {} , y(t=x) {}", e.calc(0.25), timing_function(cp, 0.25), y_at_parameter(cp, 0.25))));
            }
        }
        let mut g = stats.lock().unwrap();
        for i in 0..29 {
            g[i].n += local[i].n;
            if local[i].def_max_dev > g[i].def_max_dev {
                g[i].def_max_dev = local[i].def_max_dev;
                g[i].def_worst_x = local[i].def_worst_x;
            }
            if local[i].sig_max_dev > g[i].sig_max_dev {
                g[i].sig_max_dev = local[i].sig_max_dev;
                g[i].sig_worst_x = local[i].sig_worst_x;
            }
        }
    });
    // definition verdict per variant
    let stats = stats.into_inner().unwrap();
    let mut table = Vec::new();
    for (ei, st) in stats.iter().enumerate() {
        if st.n == 0 {
            continue;
        }
        let name = BUILTIN_NAMES[ei];
        table.push(J::obj(vec![
            ("easing", J::s(name)),
            ("floats_swept", J::U(st.n)),
            ("max_dev_from_timing_function", J::F(st.def_max_dev)),
            ("at_x", J::F(st.def_worst_x as f64)),
            ("max_dev_from_y_at_parameter_x", J::F(st.sig_max_dev)),
        ]));
        if st.def_max_dev <= 1e-5 {
            continue; // definition holds
        }
        let x = st.def_worst_x;
        let case = case_json(STREAM, ei as u64, vec![
            ("easing", J::s(name)),
            ("x", J::F(x as f64)),
            ("calc", J::F(builtin(ei).calc(x) as f64)),
            ("timing_function_published_control_points", J::F(timing_function(PUBLISHED[ei], x as f64))),
            ("bezier_y_at_parameter_x", J::F(y_at_parameter(PUBLISHED[ei], x as f64))),
            ("clause", J::s("definition")),
        ]);
        let what = format!(
            "{name}.calc({x}) = {} but the published timing function gives {} (max deviation {:.4} over the subgrid)",
            builtin(ei).calc(x), timing_function(PUBLISHED[ei], x as f64), st.def_max_dev
        );
        if st.sig_max_dev <= 1.5e-6 {
            // exactly the known signature: calc(x) is the curve's y at parameter t = x, on every swept float
            run.acc.violation(format!("easing={name}:calc(x)=bezier_y_at_parameter(x)"), what, case);
        } else {
            run.acc.violation(format!("c13:definition:{name}"), what, case);
        }
    }
    run.extra.push(("per_easing".into(), J::A(table)));
    // Custom easing is used as given
    if rc.is_none() {
        let mut r = Rng::derive(run.seed, 7, 0);
        for i in 0..20000u32 {
            let id = i % 10;
            let x = if i < 64 { [0.0f32, 1.0, 0.5, f32::MIN_POSITIVE][i as usize % 4] } else { r.unit() as f32 };
            let e = Easing::Custom(Box::new(RecEasing { id }));
            rec_log_take();
            let y = e.calc(x);
            let log = rec_log_take();
            run.acc.eval();
            if log != vec![(id, x)] || y.to_bits() != rec_pure(id, x).to_bits() {
                run.acc.violation("c13:custom", format!("Easing::Custom: calc({x}) = {y}, inner function saw {:?}", log), case_json(2, i as u64, vec![("x", J::F(x as f64))]));
            }
        }
        // several *different* custom easings asked for the same x back to back (what a timeline does when
        // neighbouring properties use different custom easings): each must be called and used as given
        for i in 0..4000u32 {
            let x = if i % 7 == 0 { [0.0f32, 1.0, 0.5, 0.25][(i / 7) as usize % 4] } else { r.unit() as f32 };
            let ids: Vec<u32> = (0..(2 + i % 4)).map(|k| (i + k * 3) % 10).collect();
            rec_log_take();
            let ys: Vec<f32> = ids.iter().map(|id| Easing::Custom(Box::new(RecEasing { id: *id })).calc(x)).collect();
            let log = rec_log_take();
            run.acc.eval();
            let want_log: Vec<(u32, f32)> = ids.iter().map(|id| (*id, x)).collect();
            let want_ys: Vec<u32> = ids.iter().map(|id| rec_pure(*id, x).to_bits()).collect();
            if log != want_log || ys.iter().map(|y| y.to_bits()).collect::<Vec<_>>() != want_ys {
                run.acc.violation(
                    "c13:custom-sequence",
                    format!("custom easings {:?} asked for x={x} in a row returned {:?}; their functions saw {:?}", ids, ys, log),
                    case_json(3, i as u64, vec![("x", J::F(x as f64)), ("ids", J::A(ids.iter().map(|i| J::U(*i as u64)).collect()))]),
                );
            }
        }
        // the same built-in asked again after a different built-in was asked for the same x gives the same bits
        for i in 0..2000u32 {
            let x = r.unit() as f32;
            let a = (i % 29) as usize;
            let b = ((i / 29) % 29) as usize;
            let (ya, yb, ya2) = (builtin(a).calc(x), builtin(b).calc(x), builtin(a).calc(x));
            run.acc.eval();
            let _ = yb;
            if ya.to_bits() != ya2.to_bits() {
                run.acc.violation("c13:builtin-sequence", format!("{}({x}) then {}({x}) then {}({x}) gave {ya}, {yb}, {ya2}", BUILTIN_NAMES[a], BUILTIN_NAMES[b], BUILTIN_NAMES[a]), case_json(4, i as u64, vec![("x", J::F(x as f64))]));
            }
        }
        // "used as given" also when the custom easing is handed to a timeline: a custom default easing F and a keyframe
        // carrying another custom easing G (and then a built-in, and then F again) — each segment must be shaped by,
        // and only by, the function given for it
        for i in 0..400u32 {
            use crate::shapes::{Shape, S1};
            use mina::Timeline;
            let (fid, gid) = (i % 10, (i / 10) % 10);
            if fid == gid {
                continue;
            }
            let spec = crate::spec::TlSpec {
                cycle: 1.0,
                delay: 0.0,
                repeat: crate::spec::Rep::None,
                reverse: false,
                default_easing: Some(crate::spec::Eas::Rec(fid)),
                kfs: vec![
                    crate::spec::KfSpec { pos: 0.0, vals: vec![Some(0.0)], easing: None },
                    crate::spec::KfSpec { pos: 0.25, vals: vec![Some(1.0)], easing: Some(crate::spec::Eas::Rec(gid)) },
                    crate::spec::KfSpec { pos: 0.5, vals: vec![Some(3.0)], easing: Some(crate::spec::Eas::Builtin(0)) },
                    crate::spec::KfSpec { pos: 0.75, vals: vec![Some(4.0)], easing: Some(crate::spec::Eas::Rec(fid)) },
                    crate::spec::KfSpec { pos: 1.0, vals: vec![Some(8.0)], easing: None },
                ],
            };
            // a second timeline without a keyframe at 0 %: the stretch from the implicit start to the first keyframe is
            // shaped by the (custom) default easing, whatever easing that first keyframe carries
            {
                let spec2 = crate::spec::TlSpec {
                    cycle: 1.0,
                    delay: 0.0,
                    repeat: crate::spec::Rep::None,
                    reverse: false,
                    default_easing: Some(crate::spec::Eas::Rec(fid)),
                    kfs: vec![
                        crate::spec::KfSpec { pos: 0.5, vals: vec![Some(2.0)], easing: Some(crate::spec::Eas::Rec(gid)) },
                        crate::spec::KfSpec { pos: 1.0, vals: vec![Some(6.0)], easing: None },
                    ],
                };
                let tl2 = S1::build_tl(&spec2);
                let x = ((i * 29 % 63) + 1) as f32 / 64.0;
                for (seg, (a, b, id)) in [(0.0f32, 2.0f32, fid), (2.0, 6.0, gid)].iter().enumerate() {
                    let t = 0.5 * (seg as f32 + x);
                    let _ = rec_log_take();
                    let mut v = S1 { x: -1.0 };
                    tl2.update(&mut v, t);
                    let log = rec_log_take();
                    run.acc.eval();
                    let y = rec_pure(*id, x);
                    let want = a * (1.0 - y) + b * y;
                    if (v.x - want).abs() > 4.0 * ulp32(want.abs().max(1.0)) || !log.iter().all(|(l, _)| l == id) || log.is_empty() {
                        run.acc.violation(
                            "c13:custom-in-timeline",
                            format!("timeline without a 0 % keyframe, custom default easing #{fid}, first keyframe (50 %) with custom easing #{gid}: segment {seg} at fraction {x} gives {} (expected {want} from custom #{id}); custom functions called: {:?}", v.x, log),
                            case_json(6, i as u64, vec![("x", J::F(x as f64)), ("segment", J::U(seg as u64))]),
                        );
                    }
                }
            }
            let tl = S1::build_tl(&spec);
            let x = ((i * 37 % 63) + 1) as f32 / 64.0; // fraction within a segment, exact
            for (seg, (a, b, who)) in [(0.0f32, 1.0f32, Some(fid)), (1.0, 3.0, Some(gid)), (3.0, 4.0, None), (4.0, 8.0, Some(fid))].iter().enumerate() {
                let t = 0.25 * (seg as f32 + x);
                let _ = rec_log_take();
                let mut v = S1 { x: -1.0 };
                tl.update(&mut v, t);
                let log = rec_log_take();
                run.acc.eval();
                let y = match who {
                    Some(id) => rec_pure(*id, x),
                    None => x,
                };
                let want = a * (1.0 - y) + b * y;
                let called_ok = match who {
                    Some(id) => log.iter().any(|(l, lx)| l == id && *lx == x) && log.iter().all(|(l, _)| l == id),
                    None => log.is_empty(),
                };
                if (v.x - want).abs() > 4.0 * ulp32(want.abs().max(1.0)) || !called_ok {
                    run.acc.violation(
                        "c13:custom-in-timeline",
                        format!("timeline with custom default easing #{fid} and a keyframe easing #{gid}: segment {seg} at fraction {x} gives {} (expected {want} from {}); custom functions called: {:?}", v.x, who.map(|i| format!("custom #{i}")).unwrap_or("Linear".into()), log),
                        case_json(5, i as u64, vec![("x", J::F(x as f64)), ("segment", J::U(seg as u64))]),
                    );
                }
            }
        }
        run.acc.sig("custom|as-given");
        run.acc.sig("custom|sequence-of-different-customs-same-x");
        run.acc.sig("custom|custom-after-custom-in-a-timeline");
    }
    if thorough {
        run.exhaustive = Some(true);
    }
}
