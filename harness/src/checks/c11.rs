//! C11 — the order in which keyframes are added does not matter (relational, bit-exact).

use crate::shapes::Shape;
use crate::spec::*;
use crate::util::*;
use crate::with_shape;
use mina::Timeline;

const STREAM: u64 = 1;

pub fn run(run: &mut Run) {
    run.rule = "keyframe sets at distinct positions (n <= 8, sparse properties, per-keyframe easings, all timing kinds); \
        every insertion order for n <= 5 (quick) / n <= 6 (thorough), 500 random orders for larger n; each permuted \
        timeline is compared bit-for-bit with its ascending-order twin at segment interior points, keyframe positions \
        and phase boundaries, and on its four metadata accessors; plus eight `timeline!` sentences each written in 6 / 12 \
        orders of their keyframes (from / to / N % keywords), compared the same way; non-trivial = a non-identity permutation of >= 2 \
        keyframes; distinct = (n, inversion-count bucket, sparse?, timing kind)"
        .into();
    run.assumptions = vec!["the ascending-order twin is the reference (its own correctness is C01's subject)".into()];
    run.min_sigs = 20;
    let thorough = run.thorough();
    let n: u64 = if thorough { 40_000 } else { 10_000 };
    let seed = run.seed;
    let rc = run.replay_case();
    let verbose = rc.is_some();
    run.parallel(|w, nw, acc| {
        if w == 0 && rc.map_or(true, |(s, _)| s == 2) {
            macro_orders(acc);
        }
        for i in my_cases(rc, STREAM, n, w, nw) {
            guarded(acc, "c11", STREAM, i, |acc| {
                let mut r = Rng::derive(seed, STREAM, i);
                let shape = r.usize(crate::shapes::N_SHAPES);
                with_shape!(shape, case(&mut r, acc, i, thorough, verbose));
            });
        }
    });
}

// ---- the same keyframes written in every order through `timeline!` (the macro decides nothing about order) ----

macro_rules! tl_orders3 {
    ($S:ident; [$($t:tt)*]; [$($a:tt)*] [$($b:tt)*] [$($c:tt)*]) => {
        vec![
            ("a b c", mina::timeline!($S $($t)* $($a)* $($b)* $($c)*)),
            ("a c b", mina::timeline!($S $($t)* $($a)* $($c)* $($b)*)),
            ("b a c", mina::timeline!($S $($t)* $($b)* $($a)* $($c)*)),
            ("b c a", mina::timeline!($S $($t)* $($b)* $($c)* $($a)*)),
            ("c a b", mina::timeline!($S $($t)* $($c)* $($a)* $($b)*)),
            ("c b a", mina::timeline!($S $($t)* $($c)* $($b)* $($a)*)),
        ]
    };
}
macro_rules! tl_orders4 {
    ($S:ident; [$($t:tt)*]; [$($a:tt)*] [$($b:tt)*] [$($c:tt)*] [$($d:tt)*]) => {
        vec![
            ("a b c d", mina::timeline!($S $($t)* $($a)* $($b)* $($c)* $($d)*)),
            ("a d b c", mina::timeline!($S $($t)* $($a)* $($d)* $($b)* $($c)*)),
            ("a d c b", mina::timeline!($S $($t)* $($a)* $($d)* $($c)* $($b)*)),
            ("d a b c", mina::timeline!($S $($t)* $($d)* $($a)* $($b)* $($c)*)),
            ("d c b a", mina::timeline!($S $($t)* $($d)* $($c)* $($b)* $($a)*)),
            ("b a d c", mina::timeline!($S $($t)* $($b)* $($a)* $($d)* $($c)*)),
            ("c d a b", mina::timeline!($S $($t)* $($c)* $($d)* $($a)* $($b)*)),
            ("b d a c", mina::timeline!($S $($t)* $($b)* $($d)* $($a)* $($c)*)),
            ("c a d b", mina::timeline!($S $($t)* $($c)* $($a)* $($d)* $($b)*)),
            ("d b c a", mina::timeline!($S $($t)* $($d)* $($b)* $($c)* $($a)*)),
            ("a c b d", mina::timeline!($S $($t)* $($a)* $($c)* $($b)* $($d)*)),
            ("b c d a", mina::timeline!($S $($t)* $($b)* $($c)* $($d)* $($a)*)),
        ]
    };
}

fn macro_orders(acc: &mut Acc) {
    use crate::shapes::{S1, S2, S4};
    #[allow(unused_imports)]
    use mina::prelude::*;
    fn compare<S: Shape>(name: &str, tls: Vec<(&'static str, S::Tl)>, acc: &mut Acc) {
        let (first_name, first) = (tls[0].0, &tls[0].1);
        let mut times: Vec<f32> = (0..=96).map(|k| k as f32 / 16.0 - 0.5).collect();
        times.extend_from_slice(&[0.3, 1.7, 2.9, 100.0]);
        for (order, tl) in tls.iter().skip(1) {
            for t in &times {
                let (mut x, mut y) = (S::default(), S::default());
                first.update(&mut x, *t);
                tl.update(&mut y, *t);
                acc.eval();
                if x.all_bits() != y.all_bits() {
                    acc.violation(
                        "c11:macro-order",
                        format!("timeline! sentence {name}: keyframes written in the order `{order}` give {:?} at t={t}, written as `{first_name}` they give {:?}", y.vals(), x.vals()),
                        case_json(2, 0, vec![("sentence", J::s(name)), ("order", J::s(*order)), ("t", J::F(*t as f64))]),
                    );
                    return;
                }
            }
            acc.eval();
            if (first.delay().to_bits(), first.duration().to_bits(), first.cycle_duration().map(|c| c.to_bits()), first.repeat()) != (tl.delay().to_bits(), tl.duration().to_bits(), tl.cycle_duration().map(|c| c.to_bits()), tl.repeat()) {
                acc.violation("c11:macro-order-meta", format!("timeline! sentence {name}: order `{order}` changes the timing accessors"), case_json(2, 0, vec![("sentence", J::s(name)), ("order", J::s(*order))]));
                return;
            }
            acc.sig(format!("macro|{name}|{order}"));
        }
    }
    compare::<S1>("S1 from/50%/to", tl_orders3!(S1; [2s after 0.5s]; [from { x: 1.0 }] [50% { x: 20.0 }] [to { x: 100.0 }]), acc);
    compare::<S1>("S1 0%/25%/100% reversing", tl_orders3!(S1; [1s reverse 2x]; [0% { x: -5.0 }] [25% { x: 40.0 }] [100% { x: 8.0 }]), acc);
    compare::<S1>("S1 to/25%/75% (no 0%)", tl_orders3!(S1; [4s]; [25% { x: 40.0 }] [75% { x: -10.0 }] [to { x: 80.0 }]), acc);
    compare::<S2>("S2 from/10%/90% sparse", tl_orders3!(S2; [1s infinite]; [from { a: 3.0, b: 50 }] [10% { a: 30.0 }] [90% { b: 200 }]), acc);
    compare::<S1>("S1 from/1%/to", tl_orders3!(S1; [2s]; [from { x: 0.0 }] [1% { x: 50.0 }] [to { x: 10.0 }]), acc);
    compare::<S4>("S4 from/25%/75%/to", tl_orders4!(S4; [2s after 1s mina::Easing::OutQuad]; [from { a: 0.0, c: 10 }] [25% { a: 100.0, b: 5.0 }] [75% { a: -30.0, c: 400, d: 2.5 }] [to { a: 60.0, b: 9.0, c: -7, d: 0.5 }]), acc);
    compare::<S2>("S2 from/0.5%/50%/to", tl_orders4!(S2; [1s 3x]; [from { a: 1.0 }] [0.5% { a: 64.0, b: 90 }] [50% { a: -64.0 }] [to { a: 2.0, b: 44 }]), acc);
    compare::<S1>("S1 10%/20%/30%/to easing", tl_orders4!(S1; [8s reverse mina::Easing::InCubic]; [10% { x: 7.0 }] [20% { x: 70.0 }] [30% { x: -7.0 }] [to { x: 33.0 }]), acc);
}

fn permutations(n: usize, limit: usize, r: &mut Rng) -> Vec<Vec<usize>> {
    let mut out = Vec::new();
    let total: usize = (1..=n).product();
    if total <= limit {
        // Heap's algorithm
        let mut a: Vec<usize> = (0..n).collect();
        let mut c = vec![0usize; n];
        out.push(a.clone());
        let mut i = 0;
        while i < n {
            if c[i] < i {
                if i % 2 == 0 { a.swap(0, i) } else { a.swap(c[i], i) }
                out.push(a.clone());
                c[i] += 1;
                i = 0;
            } else {
                c[i] = 0;
                i += 1;
            }
        }
    } else {
        let mut rev: Vec<usize> = (0..n).collect();
        rev.reverse();
        out.push(rev);
        for _ in 0..limit.min(500) {
            let mut a: Vec<usize> = (0..n).collect();
            r.shuffle(&mut a);
            out.push(a);
        }
    }
    out
}

fn case<S: Shape>(r: &mut Rng, acc: &mut Acc, index: u64, thorough: bool, verbose: bool) {
    let kinds = &S::KINDS[..S::N_ANIM];
    let opts = GenOpts { repeats: false, min_kf: 2, ..GenOpts::default() };
    let base = gen_tl(r, kinds, &opts);
    let n = base.kfs.len();
    if n < 2 {
        return;
    }
    let twin = S::build_tl(&base);
    // evaluation times: all phases, quarter points and keyframe positions (exact regime)
    let mut fr: Vec<f32> = Vec::new();
    for wv in base.kfs.windows(2) {
        for q in [0.0f32, 0.25, 0.5, 0.75] {
            fr.push(wv[0].pos + q * (wv[1].pos - wv[0].pos));
        }
    }
    fr.extend_from_slice(&[0.0, 1.0, 0.03, 0.97]);
    let mut times: Vec<f32> = vec![-1.0, base.delay];
    for k in [0u32, 1, 3] {
        for f in &fr {
            times.push(base.delay + base.cycle * (k as f32 + f));
            if base.reverse {
                times.push(base.delay + base.cycle * (k as f32 + f / 2.0));
            }
        }
    }
    times.push(base.total().min(1e6) as f32 + 1.0);
    let reference: Vec<S> = times
        .iter()
        .map(|t| {
            let mut v = S::default();
            twin.update(&mut v, *t);
            v
        })
        .collect();
    let max_full = if thorough { 720 } else { 120 };
    let sparse = base.kfs.iter().any(|k| k.vals.iter().any(|v| v.is_none()));
    for perm in permutations(n, max_full, r) {
        let inv = {
            let mut c = 0;
            for i in 0..n {
                for j in i + 1..n {
                    if perm[i] > perm[j] {
                        c += 1;
                    }
                }
            }
            c
        };
        let mut spec = base.clone();
        spec.kfs = perm.iter().map(|i| base.kfs[*i].clone()).collect();
        let tl = S::build_tl(&spec);
        let case = |t: f32, what: &str| {
            case_json(STREAM, index, vec![
                ("shape", J::s(S::NAME)), ("timeline_permuted", spec.json()),
                ("insertion_order", J::A(perm.iter().map(|i| J::U(*i as u64)).collect())), ("t", J::F(t as f64)), ("clause", J::s(what)),
            ])
        };
        acc.eval();
        if !same_f32(tl.delay(), twin.delay())
            || tl.cycle_duration().map(|x| x.to_bits()) != twin.cycle_duration().map(|x| x.to_bits())
            || tl.duration().to_bits() != twin.duration().to_bits()
            || tl.repeat() != twin.repeat()
        {
            acc.violation("c11:metadata", format!("metadata differs for insertion order {:?}", perm), case(0.0, "metadata"));
        }
        let mut bad = false;
        for (ti, t) in times.iter().enumerate() {
            let mut v = S::default();
            tl.update(&mut v, *t);
            acc.eval();
            for f in 0..S::N_ANIM {
                let (a, b) = (v.bits(f), reference[ti].bits(f));
                if a != b && !(v.get(f) == 0.0 && reference[ti].get(f) == 0.0) {
                    if verbose {
                        println!("  order {:?} t={t} field {}: {} vs ascending-order twin {}", perm, S::FIELDS[f], v.get(f), reference[ti].get(f));
                    }
                    if !bad {
                        acc.violation(
                            "c11:values",
                            format!("insertion order {:?}: field {} at t={t} is {} but the ascending-order twin gives {}", perm, S::FIELDS[f], v.get(f), reference[ti].get(f)),
                            case(*t, "values"),
                        );
                    }
                    bad = true;
                }
            }
        }
        if inv > 0 {
            acc.sig(format!("n{}|inv{}|{}|{}", n, (inv as f64).sqrt() as u32, if sparse { "sparse" } else { "dense" }, base.kind_name()));
            if !bad {
                acc.sample(3, || case(times[times.len() / 2], "agrees with ascending twin at all sampled times"));
            }
        }
    }
}
