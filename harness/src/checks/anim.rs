//! State-animator machinery shared by C04–C07: the reference model M-anim (DESIGN §3.1), operation
//! histories, the configuration pool and the exhaustive / random history explorers.

use crate::shapes::*;
use crate::spec::*;
use crate::util::*;
use mina::{MergedTimeline, StateAnimator, Timeline};
use std::time::Duration;

#[derive(Clone, Copy, Debug, PartialEq)]
pub enum Op {
    Adv(f32),
    Set(usize),
}

impl Op {
    pub fn json(&self) -> J {
        match self {
            Op::Adv(d) => J::s(format!("advance({d})")),
            Op::Set(s) => J::s(format!("set_state({})", ["A", "B", "C", "D", "E"][*s])),
        }
    }
}

pub fn ops_json(ops: &[Op]) -> J {
    J::A(ops.iter().map(|o| o.json()).collect())
}

pub fn same_field<S: Shape>(a: &S, b: &S, f: usize) -> bool {
    a.bits(f) == b.bits(f) || (a.get(f) == 0.0 && b.get(f) == 0.0)
}
pub fn same_all<S: Shape>(a: &S, b: &S) -> bool {
    (0..S::n()).all(|f| same_field(a, b, f))
}

/// M-anim: `(s, values, t, pause, start[s])` with evaluation delegated to twin instances of the
/// real timelines (legitimate because purity/start_with/merging are decided by C09/C10/C12).
pub struct MAnim<S: Shape> {
    pub spec: AnimSpec,
    pub state: usize,
    pub values: S,
    pub t: Duration,
    pub pause: Option<(usize, Duration)>,
    /// How the time in the current state was delivered: `exact` = every advance since the state was entered
    /// (including those before a pause that was resumed) was a multiple of 1/512 s and the sum is below 2^15 s,
    /// so nanosecond accumulation, the f32 reading of it and the real-number sum all coincide. Otherwise the
    /// time an implementation hands to the timeline is only determined up to float rounding: `t_true` is the
    /// real-number sum of the advances and `n_adv` their number (one nanosecond of conversion slack each).
    pub clock: Clock,
    pub paused_clock: Option<Clock>,
    pub twins: Vec<Option<MergedTimeline<S::Tl>>>,
    /// what the last set_state did (for coverage signatures)
    pub last_transition: &'static str,
}

#[derive(Clone, Copy, Debug, PartialEq)]
pub struct Clock {
    pub exact: bool,
    pub t_true: f64,
    pub n_adv: u32,
}
impl Clock {
    pub const ZERO: Clock = Clock { exact: true, t_true: 0.0, n_adv: 0 };
    fn add(&mut self, dt: f32) {
        self.n_adv += 1;
        self.t_true += dt as f64;
        if !((dt as f64 * 512.0).fract() == 0.0 && self.t_true < 32768.0) {
            self.exact = false;
        }
    }
}

impl<S: Shape> MAnim<S> {
    /// The f32 times an implementation may legitimately hand to the timeline for the time spent in the current
    /// state: every f32 within float rounding of it. Even where the clock is exact the library's own
    /// `Duration::as_secs_f32` (seconds + nanos/1e9, two roundings) can be one ulp off the exact time (e.g.
    /// 9/64 s), so the two f32 neighbours on each side are always candidates; where the step sums are inexact
    /// the range also spans the nanosecond-accumulated and the real-number time plus one nanosecond per advance.
    pub fn candidate_times(&self) -> Vec<f32> {
        let tm = self.t.as_secs_f32();
        let tt = if self.clock.exact { self.t.as_secs_f64() as f32 } else { self.clock.t_true as f32 };
        let slack = if self.clock.exact { 0.0 } else { (self.clock.n_adv as f64 * 1.0e-9) as f32 };
        let (mut lo, mut hi) = (tm.min(tt) - slack, tm.max(tt) + slack);
        for _ in 0..2 {
            lo = crate::util::next_down(lo);
            hi = crate::util::next_up(hi);
        }
        let mut out = vec![tm];
        let mut x = lo.max(0.0);
        while x <= hi && out.len() < 96 {
            if x != tm {
                out.push(x);
            }
            x = crate::util::next_up(x);
        }
        out
    }
    /// Values of the current state's twin timeline at time `t`, starting from the model's current values.
    pub fn values_at(&self, t: f32) -> S {
        let mut v = self.values.clone();
        if let Some(tw) = &self.twins[self.state] {
            tw.update(&mut v, t);
        }
        v
    }
    pub fn new(spec: &AnimSpec) -> Self {
        let values = match &spec.initial_values {
            Some(v) => S::from_vals(v),
            None => S::default(),
        };
        let mut twins: Vec<Option<MergedTimeline<S::Tl>>> =
            spec.states.iter().map(|st| if st.is_empty() { None } else { Some(build_merged::<S>(st)) }).collect();
        // construction blends the initial state from the initial values
        if let Some(t) = twins[spec.initial_state].as_mut() {
            t.start_with(&values);
        }
        MAnim { spec: spec.clone(), state: spec.initial_state, values, t: Duration::ZERO, pause: None, clock: Clock::ZERO, paused_clock: None, twins, last_transition: "init" }
    }
    fn eval(&mut self) {
        if let Some(t) = &self.twins[self.state] {
            t.update(&mut self.values, self.t.as_secs_f32());
        }
    }
    pub fn advance(&mut self, dt: f32) {
        // an amount (or a sum) beyond what a `Duration` holds: the time spent in the state is then "longer than
        // anything"; the model's clock stops at the largest Duration
        let d = Duration::try_from_secs_f32(dt).unwrap_or(Duration::MAX);
        self.t = self.t.saturating_add(d);
        self.clock.add(dt);
        self.eval();
    }
    /// The time in the state is so long (2^40 s and more) that an f32 reading of it cannot resolve a cycle and
    /// implementations may legitimately cap it differently: for a timeline that never ends the phase within the
    /// cycle is then undetermined (values are not judged); a finite timeline is simply over.
    pub fn huge(&self) -> bool {
        self.t.as_secs_f64() >= 1.0995e12 || self.clock.t_true >= 1.0995e12
    }
    pub fn set_state(&mut self, s: usize) {
        if s == self.state {
            self.last_transition = "same";
            return;
        }
        if let Some((ps, tp)) = self.pause {
            if ps == s {
                // resume exactly where it was frozen; no re-blend
                self.t = tp;
                self.pause = None;
                self.clock = self.paused_clock.take().unwrap_or(Clock::ZERO);
                self.state = s;
                self.last_transition = "resume";
                self.eval();
                return;
            }
        }
        let was = self.twins[self.state].is_some();
        let will = self.twins[s].is_some();
        if was && !will {
            self.pause = Some((self.state, self.t));
            self.paused_clock = Some(self.clock);
            self.last_transition = "pause";
        } else if will {
            // entering any other animated state discards the remembered position
            self.last_transition = if self.pause.is_some() { "blend-discarding-pause" } else { "blend" };
            self.pause = None;
            self.paused_clock = None;
        } else {
            self.last_transition = "idle-to-idle";
        }
        if will {
            // a *fresh* twin built from the configuration, started once from the current values: the
            // model must not inherit a defect of repeated start_with on one timeline instance
            let v = self.values.clone();
            let mut fresh = build_merged::<S>(&self.spec.states[s]);
            fresh.start_with(&v);
            self.twins[s] = Some(fresh);
        }
        self.t = Duration::ZERO;
        self.clock = Clock::ZERO;
        self.state = s;
        self.eval();
    }
    pub fn apply(&mut self, op: Op) {
        match op {
            Op::Adv(d) => self.advance(d),
            Op::Set(s) => self.set_state(s),
        }
    }
    /// Total duration of the current state's timeline from the *configuration* (f64, exact on the grid).
    pub fn total(&self) -> Option<f64> {
        if self.spec.states[self.state].is_empty() { None } else { Some(self.spec.total(self.state)) }
    }
    pub fn is_ended(&self) -> bool {
        match self.total() {
            None => true,
            Some(total) => (self.t.as_secs_f32() as f64) >= total,
        }
    }
    /// is the end test within float rounding of the boundary? (off-grid configurations, or a time in state that
    /// was delivered in steps whose sum is not exact)
    pub fn ended_in_band(&self) -> bool {
        match self.total() {
            Some(total) if total.is_finite() => {
                let t = self.t.as_secs_f32();
                // landing exactly on the total demands the exact answer only where the f32 arithmetic of
                // `delay + cycle x (repeats+1)` is itself exact (e.g. cycle x 3 may round, and the reported
                // total is then one ulp off the exact one) and the time itself is exact
                let slack = 2.0 * ulp32(total as f32) as f64 + self.clock.n_adv as f64 * 1.0e-9;
                let near = (t as f64 - total).abs() <= slack || (!self.clock.exact && (self.clock.t_true - total).abs() <= slack);
                // ... and its f32 reading is exact (`as_secs_f32` rounds twice and can be one ulp off)
                near && (!self.clock.exact || t as f64 != total || t as f64 != self.t.as_secs_f64() || !self.spec.total_is_exact_in_f32(self.state))
            }
            _ => false,
        }
    }
    /// terminal values of the current state's timeline (twin evaluated far beyond the end)
    pub fn terminal(&self) -> Option<S> {
        let total = self.total()?;
        if !total.is_finite() {
            return None;
        }
        let mut v = self.values.clone();
        self.twins[self.state].as_ref()?.update(&mut v, (total + 1000.0) as f32);
        Some(v)
    }
}

pub fn apply_real<S: Shape>(a: &mut Anim<S>, op: Op) {
    match op {
        Op::Adv(d) => a.advance(d),
        Op::Set(s) => a.set_state(&STATES[s]),
    }
}

// ------------------------------------------------------------------------------------------------
// Configuration pool

fn s<T>(x: T) -> Option<T> {
    Some(x)
}
fn kf(pos: f32, vals: &[Option<f64>], e: Option<usize>) -> KfSpec {
    KfSpec { pos, vals: vals.to_vec(), easing: e.map(Eas::Builtin) }
}
fn tl(cycle: f32, delay: f32, repeat: Rep, reverse: bool, de: Option<usize>, kfs: Vec<KfSpec>) -> TlSpec {
    TlSpec { cycle, delay, repeat, reverse, default_easing: de.map(Eas::Builtin), kfs }
}

/// Hand-picked S4 {a: f32, b: f32, c: i32, d: f64} animator configurations covering finite, delayed, very slow,
/// Times(n), reversing, infinite, merged, 100 %-only, 0 %-only, sparse and un-animated states.
pub fn fixed_pool() -> Vec<AnimSpec> {
    let p0 = AnimSpec {
        initial_state: 0,
        initial_values: s(vec![7.5, -3.25, 40.0, 0.5]),
        force_merged: false,
        states: vec![
            vec![tl(1.0, 0.0, Rep::None, false, s(9), vec![kf(0.0, &[s(0.0), s(10.0), s(-100.0), s(1.0)], None), kf(1.0, &[s(100.0), s(-10.0), s(300.0), s(2.0)], None)])],
            vec![],
            vec![tl(2.0, 0.5, Rep::Times(1), false, None, vec![kf(0.25, &[s(50.0), None, s(77.0), None], s(12)), kf(0.75, &[None, s(20.0), s(-5.0), s(9.0)], s(5))])],
            vec![tl(1.0, 0.0, Rep::Infinite, true, s(4), vec![kf(0.0, &[s(-20.0), s(5.0), None, None], None), kf(0.5, &[s(35.0), None, s(1000.0), None], None), kf(1.0, &[s(60.0), s(15.0), s(-1000.0), None], None)])],
            vec![
                tl(1.0, 0.0, Rep::None, false, s(3), vec![kf(0.0, &[s(1.0), None, None, None], None), kf(1.0, &[s(9.0), None, None, None], None)]),
                tl(0.5, 0.25, Rep::Times(2), false, None, vec![kf(0.0, &[None, s(100.0), None, None], None), kf(1.0, &[None, s(200.0), None, None], None)]),
            ],
        ],
    };
    let p1 = AnimSpec {
        initial_state: 0,
        initial_values: s(vec![1.0, 2.0, 3.0, 4.0]),
        force_merged: false,
        states: vec![
            vec![],
            vec![tl(0.5, 0.0, Rep::None, false, s(15), vec![kf(1.0, &[s(64.0), s(-64.0), s(640.0), s(6.5)], None)])],
            vec![tl(1.0, 0.0, Rep::None, false, None, vec![kf(0.0, &[s(11.0), s(22.0), s(33.0), s(44.0)], None)])],
            vec![tl(0.5, 0.25, Rep::Times(3), true, s(7), vec![kf(0.0, &[s(0.0), None, s(0.0), None], None), kf(1.0, &[s(80.0), None, s(-80.0), None], None)])],
            vec![],
        ],
    };
    let p2 = AnimSpec {
        initial_state: 1,
        initial_values: None,
        force_merged: true,
        states: vec![
            vec![tl(1.0, 0.0, Rep::Infinite, false, s(27), vec![kf(0.0, &[s(0.0), s(0.0), s(0.0), s(0.0)], None), kf(1.0, &[s(10.0), s(20.0), s(30.0), s(40.0)], None)])],
            vec![tl(1.0, 0.0, Rep::None, false, s(2), vec![
                kf(0.0, &[s(5.0), s(6.0), s(7.0), None], None), kf(0.25, &[s(105.0), None, None, None], s(21)), kf(0.5, &[None, s(-106.0), None, None], None),
                kf(0.75, &[None, None, s(907.0), None], s(24)), kf(1.0, &[s(1.0), s(2.0), s(3.0), None], None)])],
            vec![
                tl(1.0, 0.0, Rep::None, false, None, vec![kf(0.0, &[s(0.0), None, None, None], None), kf(1.0, &[s(50.0), None, None, None], None)]),
                tl(0.25, 0.0, Rep::Infinite, true, None, vec![kf(0.0, &[None, None, s(10.0), None], None), kf(1.0, &[None, None, s(90.0), None], None)]),
            ],
            vec![],
            vec![tl(0.125, 0.0, Rep::None, false, s(13), vec![kf(0.0, &[s(300.0), s(301.0), s(302.0), s(303.0)], None), kf(1.0, &[s(-300.0), s(-301.0), s(-302.0), s(-303.0)], None)])],
        ],
    };
    let p3 = AnimSpec {
        initial_state: 2,
        initial_values: s(vec![0.0, 0.0, 0.0, 0.0]),
        force_merged: false,
        states: vec![
            vec![tl(8.0, 1.0, Rep::None, false, s(1), vec![kf(0.0, &[s(10.0), s(20.0), s(30.0), s(40.0)], None), kf(0.5, &[s(-10.0), None, None, s(4.0)], s(26)), kf(1.0, &[s(90.0), s(80.0), s(70.0), s(60.0)], None)])],
            vec![],
            vec![tl(1.0, 7.5, Rep::Times(0), false, None, vec![kf(0.0, &[s(1.0), s(1.0), s(1.0), s(1.0)], None), kf(1.0, &[s(2.0), s(3.0), s(4.0), s(5.0)], None)])],
            vec![tl(2.0, 0.0, Rep::Times(1), true, s(10), vec![kf(0.0, &[s(100.0), None, None, None], None), kf(1.0, &[s(200.0), s(50.0), None, None], None)])],
            vec![],
        ],
    };
    // very slow timelines (a frame is a tiny fraction of a cycle), finite and infinite
    let p4 = AnimSpec {
        initial_state: 0,
        initial_values: s(vec![0.0, 0.0, 0.0, 0.0]),
        force_merged: false,
        states: vec![
            vec![tl(65536.0, 0.0, Rep::None, false, None, vec![kf(0.0, &[s(0.0), s(1000.0), s(0.0), s(-5.0)], None), kf(1.0, &[s(65536.0), s(-1000.0), s(2000000.0), s(5.0)], None)])],
            vec![],
            vec![tl(16384.0, 0.125, Rep::Infinite, true, s(9), vec![kf(0.0, &[s(-100.0), None, s(0.0), None], None), kf(1.0, &[s(900.0), None, s(1000000.0), None], None)])],
            vec![tl(262144.0, 0.0, Rep::Times(1), false, s(3), vec![kf(0.25, &[s(50.0), s(60.0), None, None], None), kf(1.0, &[s(-50.0), s(-60.0), s(999999.0), s(1.0)], None)])],
            vec![tl(1.0, 0.0, Rep::None, false, None, vec![kf(1.0, &[s(1.0), s(2.0), s(3.0), s(4.0)], None)])],
        ],
    };
    vec![p0, p1, p2, p3, p4]
}

pub const ALPHABET: [Op; 10] = [
    Op::Adv(0.0), Op::Adv(0.001953125), Op::Adv(0.125), Op::Adv(1.0), Op::Adv(7.5),
    Op::Set(0), Op::Set(1), Op::Set(2), Op::Set(3), Op::Set(4),
];

/// The i-th history of length `depth` over ALPHABET (base-10 digits of i).
pub fn nth_history(mut i: u64, depth: usize) -> Vec<Op> {
    let mut ops = Vec::with_capacity(depth);
    for _ in 0..depth {
        ops.push(ALPHABET[(i % 10) as usize]);
        i /= 10;
    }
    ops
}

pub fn random_history(r: &mut Rng, len: usize, grid: bool) -> Vec<Op> {
    let mut ops = Vec::new();
    for _ in 0..len {
        if r.chance(2, 5) {
            ops.push(Op::Set(r.usize(5)));
        } else if grid {
            ops.push(Op::Adv(*r.pick(&[0.0f32, 0.001953125, 0.015625, 0.125, 0.25, 0.5, 1.0, 2.0, 7.5])));
        } else if r.chance(1, 60) {
            // longer than anything: beyond 2^40 s, beyond what a Duration holds (2^64 s), up to f32::MAX
            ops.push(Op::Adv(*r.pick(&[2.0e12f32, 1.0e19, 1.9e19, 1.0e20, 3.0e30, f32::MAX])));
        } else {
            ops.push(Op::Adv(match r.below(5) {
                0 => 0.0,
                1 => (r.unit() * 0.02) as f32,
                2 => (r.unit() * 0.3) as f32,
                3 => (r.unit() * 2.0) as f32,
                _ => (r.unit() * 10.0) as f32,
            }));
        }
    }
    ops
}

/// Random animator configuration over shape S in the exact regime.
pub fn random_anim<S: Shape>(r: &mut Rng) -> AnimSpec {
    random_anim_opt::<S>(r, false)
}

/// `distinct_per_property`: the C04 statement's scope ("distinct keyframe positions per property") — several
/// keyframes may share a position as long as no property is defined twice there. The other animator properties
/// are not restricted in this way.
pub fn random_anim_opt<S: Shape>(r: &mut Rng, distinct_per_property: bool) -> AnimSpec {
    let mut spec = crate::checks::c08::gen_anim::<S>(r, &GenOpts { random_pos: true, rec: false, ..GenOpts::default() });
    // Outside C04 a property may have several keyframes at one position (a step), except at 0 %: which of two 0 %
    // keyframes a blend replaces is the ambiguity C10's scope note describes (the substituted start would have to
    // be shown and the stretch it governs is empty), so animators never get that shape.
    for st in spec.states.iter_mut() {
        for t in st.iter_mut() {
            for i in 1..t.kfs.len() {
                for j in 0..i {
                    if t.kfs[j].pos == t.kfs[i].pos && (distinct_per_property || t.kfs[i].pos == 0.0) {
                        for f in 0..t.kfs[i].vals.len() {
                            if t.kfs[j].vals[f].is_some() {
                                t.kfs[i].vals[f] = None;
                            }
                        }
                    }
                }
            }
        }
    }
    // one configuration in five has a very slow state: cycles of 2^12..2^18 s (still dyadic), so that
    // an ordinary frame is a tiny fraction (below f32 epsilon) of a cycle
    if r.chance(1, 5) {
        let k = r.usize(5);
        let f = (1u32 << (12 + r.below(7))) as f32;
        for t in spec.states[k].iter_mut() {
            t.cycle *= f;
        }
    }
    spec
}
