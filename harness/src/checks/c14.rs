//! C14 — lerp laws for every numeric type (exhaustive for 8-bit types, boundary/random for wider
//! types, dense x grid; glam component-wise).

use crate::util::*;
use mina::Lerp;

trait Num: Lerp + Copy + PartialEq + std::fmt::Debug + Send + Sync + 'static {
    const NAME: &'static str;
    const IS_INT: bool;
    fn to64(self) -> f64;
    /// conversion used to build test values from an f32-representable real
    fn from64(v: f64) -> Self;
    /// the value of this type that is exactly `v`, if there is one
    fn exact(v: f64) -> Option<Self>;
    fn min64() -> f64;
    fn max64() -> f64;
}

macro_rules! num_int {
    ($($t:ident),*) => {$(
        impl Num for $t {
            const NAME: &'static str = stringify!($t);
            const IS_INT: bool = true;
            fn to64(self) -> f64 { self as f64 }
            fn from64(v: f64) -> Self { v as $t }
            fn exact(v: f64) -> Option<Self> {
                let i = v as i128;
                if i as f64 == v && i >= $t::MIN as i128 && i <= $t::MAX as i128 { Some(i as $t) } else { None }
            }
            fn min64() -> f64 { $t::MIN as f64 }
            fn max64() -> f64 { $t::MAX as f64 }
        }
    )*};
}
num_int!(i8, i16, i32, i64, u8, u16, u32, u64, usize);
impl Num for f32 {
    const NAME: &'static str = "f32";
    const IS_INT: bool = false;
    fn to64(self) -> f64 { self as f64 }
    fn from64(v: f64) -> Self { v as f32 }
    fn exact(v: f64) -> Option<Self> { if (v as f32) as f64 == v { Some(v as f32) } else { None } }
    fn min64() -> f64 { -1.0e30 }
    fn max64() -> f64 { 1.0e30 }
}
impl Num for f64 {
    const NAME: &'static str = "f64";
    const IS_INT: bool = false;
    fn to64(self) -> f64 { self }
    fn from64(v: f64) -> Self { v }
    fn exact(v: f64) -> Option<Self> { Some(v) }
    fn min64() -> f64 { -1.0e30 }
    fn max64() -> f64 { 1.0e30 }
}

/// Largest/smallest values of the type that are exactly representable in f32 plus other boundaries.
fn boundary_values<T: Num>() -> Vec<T> {
    let mut v: Vec<f64> = vec![0.0, 1.0, 2.0, 100.0, 127.0, 128.0, 255.0, 16777216.0, 16777215.0, 16777218.0, 1.0e6, 65535.0, 32767.0];
    let neg: Vec<f64> = v.iter().map(|x| -x).collect();
    v.extend(neg);
    v.push(-128.0);
    v.push(-32768.0);
    // the extreme f32-representable values inside the type
    let mx = T::max64();
    let mn = T::min64();
    let mxf = {
        let f = mx as f32;
        if T::exact(f as f64).is_none() { next_down(f) as f64 } else { f as f64 }
    };
    v.push(mxf);
    v.push(next_down(mxf as f32) as f64);
    v.push(mn as f32 as f64);
    if mn < 0.0 {
        v.push(next_up(mn as f32) as f64);
    }
    let mut out: Vec<T> = Vec::new();
    for x in v {
        if x >= mn && x <= mx && (x as f32) as f64 == x {
            if let Some(t) = T::exact(x) {
                if !out.contains(&t) {
                    out.push(t);
                }
            }
        }
    }
    out
}

fn random_value<T: Num>(r: &mut Rng) -> T {
    loop {
        let mn = T::min64();
        let mx = T::max64();
        let v = match r.below(4) {
            0 => mn + (mx - mn) * r.unit(),
            1 => (r.unit() - 0.5) * 2000.0,
            2 => (r.unit() - 0.5) * 2.0e7,
            _ => {
                // log-uniform magnitude
                let m = (r.unit() * (mx.abs().max(mn.abs())).log2()).exp2();
                if r.chance(1, 2) { m } else { -m }
            }
        };
        let v = if T::IS_INT { v.round() } else { v };
        let v = (v as f32) as f64; // f32-representable
        if v >= mn && v <= mx && v.is_finite() {
            if let Some(t) = T::exact(v) {
                return t;
            }
        }
    }
}

fn xgrid(dense: bool) -> Vec<f32> {
    let mut xs: Vec<f32> = (0..=256).map(|k| k as f32 / 256.0).collect();
    for k in 1..10 {
        xs.push(k as f32 * 0.1);
        xs.push(k as f32 * 0.01);
    }
    xs.extend_from_slice(&[f32::MIN_POSITIVE, 1e-10, f32::EPSILON, 1.0 - f32::EPSILON, next_down(1.0), next_up(0.5), next_down(0.5), 1.0 / 3.0, 2.0 / 3.0]);
    if dense {
        for k in 0..1000 {
            xs.push(k as f32 / 999.0);
        }
    }
    xs.sort_by(|a, b| a.total_cmp(b));
    xs.dedup();
    xs
}

fn check_pair<T: Num>(a: T, b: T, xs: &[f32], acc: &mut Acc, stream: u64, index: u64) {
    let (fa, fb) = (a.to64(), b.to64());
    let mag = fa.abs().max(fb.abs());
    let eps = 2.0 * ulp32(mag as f32) as f64 + if T::IS_INT { 0.0 } else { 1e-37 };
    let case = |x: f32, clause: &str, got: f64| {
        case_json(stream, index, vec![
            ("type", J::s(T::NAME)), ("a", J::F(fa)), ("b", J::F(fb)), ("x", J::F(x as f64)), ("x_bits", J::U(x.to_bits() as u64)),
            ("observed", J::F(got)), ("clause", J::s(clause)),
        ])
    };
    let mut prev: Option<f64> = None;
    let dir = if fb >= fa { 1.0 } else { -1.0 };
    for &x in xs {
        acc.eval();
        let r = match catch(|| a.lerp(&b, x)) {
            Ok(r) => r.to64(),
            Err(msg) => {
                acc.violation(format!("c14:panic:{}", T::NAME), format!("{}::lerp({fa}, {fb}, {x}) panicked: {msg}", T::NAME), case(x, "no-panic", f64::NAN));
                continue;
            }
        };
        if x == 0.0 && r != fa {
            acc.violation(format!("c14:end0:{}", T::NAME), format!("{}::lerp({fa}, {fb}, 0) = {r}", T::NAME), case(x, "lerp(a,b,0)=a", r));
        }
        if x == 1.0 && r != fb {
            acc.violation(format!("c14:end1:{}", T::NAME), format!("{}::lerp({fa}, {fb}, 1) = {r}", T::NAME), case(x, "lerp(a,b,1)=b", r));
        }
        // betweenness
        let (lo, hi) = (fa.min(fb), fa.max(fb));
        let slack = if T::IS_INT { if eps < 0.25 { 0.0 } else { eps.ceil() } } else { eps };
        if r < lo - slack || r > hi + slack {
            acc.violation(format!("c14:between:{}", T::NAME), format!("{}::lerp({fa}, {fb}, {x}) = {r} not between the ends", T::NAME), case(x, "between", r));
        }
        // nearest to the real interpolation
        let real = fa + (x as f64) * (fb - fa);
        let dev = (r - real).abs();
        let lim = if T::IS_INT { 0.5 + eps + 1e-9 } else if T::NAME == "f64" { 4.0 * ulp32(mag as f32) as f64 + 1e-37 } else { eps };
        if dev > lim {
            acc.violation(
                format!("c14:nearest:{}", T::NAME),
                format!("{}::lerp({fa}, {fb}, {x}) = {r} but the real interpolation is {real} (|dev| {dev} > {lim})", T::NAME),
                case(x, "nearest", r),
            );
        }
        // monotone in x
        if let Some(p) = prev {
            let mslack = if T::IS_INT { if eps < 0.25 { 0.0 } else { eps.ceil() } } else { eps };
            // rounding of two nearly-tied values may flip by one unit: only tolerated next to a tie
            let near_tie = T::IS_INT && ((real - real.floor()) - 0.5).abs() < 1e-3 + eps;
            if (r - p) * dir < -(mslack + if near_tie { 1.0 } else { 0.0 }) {
                acc.violation(format!("c14:monotone:{}", T::NAME), format!("{}::lerp({fa}, {fb}, x) not monotone at x={x}: {p} then {r}", T::NAME), case(x, "monotone", r));
            }
        }
        prev = Some(r);
    }
    // lerp(a,a,x) = a
    for &x in xs.iter().step_by(7) {
        acc.eval();
        match catch(|| a.lerp(&a, x)) {
            Ok(r) => {
                let r = r.to64();
                let exact = T::IS_INT && fa.abs() <= 1048576.0;
                let ok = if exact { r == fa } else { (r - fa).abs() <= 2.0 * ulp32(fa as f32) as f64 };
                if !ok {
                    acc.violation(format!("c14:same:{}", T::NAME), format!("{}::lerp({fa}, {fa}, {x}) = {r}", T::NAME), case(x, "lerp(a,a,x)=a", r));
                }
            }
            Err(msg) => acc.violation(format!("c14:panic:{}", T::NAME), format!("{}::lerp({fa}, {fa}, {x}) panicked: {msg}", T::NAME), case(x, "no-panic", f64::NAN)),
        }
    }
    let kind = if fa == fb { "equal" } else if (fa < 0.0) != (fb < 0.0) { "mixed-sign" } else if fa < 0.0 { "negative" } else { "positive" };
    let magc = if mag >= 16777216.0 { "beyond-2^24" } else if mag >= 256.0 { "wide" } else { "small" };
    acc.sig(format!("{}|{kind}|{magc}|{}", T::NAME, if fa > fb { "desc" } else { "asc" }));
}

fn exhaustive8<T: Num>(acc: &mut Acc, w: usize, nw: usize, xs: &[f32], stream: u64) {
    let (mn, mx) = (T::min64() as i64, T::max64() as i64);
    let mut idx = 0u64;
    for a in mn..=mx {
        for b in mn..=mx {
            idx += 1;
            if (idx as usize) % nw != w {
                continue;
            }
            check_pair::<T>(T::from64(a as f64), T::from64(b as f64), xs, acc, stream, idx);
        }
    }
}

fn wide<T: Num>(acc: &mut Acc, w: usize, nw: usize, xs: &[f32], stream: u64, seed: u64, n_random: u64, rc: Option<(u64, u64)>, full_x: bool) {
    let bv = boundary_values::<T>();
    let nb = (bv.len() * bv.len()) as u64;
    for i in my_cases(rc, stream, nb + n_random, w, nw) {
        let (a, b) = if i < nb {
            (bv[(i / bv.len() as u64) as usize], bv[(i % bv.len() as u64) as usize])
        } else {
            let mut r = Rng::derive(seed, stream, i);
            (random_value::<T>(&mut r), random_value::<T>(&mut r))
        };
        check_pair::<T>(a, b, xs, acc, stream, i);
        if full_x && i < nb && i % 23 == 0 {
            // the whole f32 x axis in [0,1] for a subset of the boundary pairs (no panic, between, nearest)
            let one = 1.0f32.to_bits();
            let mut bits = 0u32;
            let (fa, fb) = (a.to64(), b.to64());
            let eps = 2.0 * ulp32(fa.abs().max(fb.abs()) as f32) as f64;
            while bits <= one {
                let x = f32::from_bits(bits);
                acc.eval();
                match catch(|| a.lerp(&b, x)) {
                    Ok(r) => {
                        let r = r.to64();
                        let real = fa + (x as f64) * (fb - fa);
                        let lim = if T::IS_INT { 0.5 + eps + 1e-9 } else { 2.0 * eps + 1e-37 };
                        if (r - real).abs() > lim {
                            acc.violation(format!("c14:nearest:{}", T::NAME), format!("{}::lerp({fa}, {fb}, {x}) = {r}, real {real}", T::NAME),
                                case_json(stream, i, vec![("type", J::s(T::NAME)), ("a", J::F(fa)), ("b", J::F(fb)), ("x_bits", J::U(bits as u64))]));
                            break;
                        }
                    }
                    Err(msg) => {
                        acc.violation(format!("c14:panic:{}", T::NAME), format!("{}::lerp({fa}, {fb}, {x}) panicked: {msg}", T::NAME),
                            case_json(stream, i, vec![("type", J::s(T::NAME)), ("a", J::F(fa)), ("b", J::F(fb)), ("x_bits", J::U(bits as u64))]));
                        break;
                    }
                }
                bits += 17;
            }
            acc.count("full_x_axis_pairs", 1);
        }
    }
}

fn glam_checks(acc: &mut Acc, seed: u64, n: u64) {
    use glam::*;
    let mut r = Rng::derive(seed, 99, 0);
    macro_rules! vecn {
        ($ty:ident, $s:ident, [$($c:ident),+]) => {{
            for i in 0..n {
                let a = $ty::new($( { let _ = stringify!($c); random_value::<$s>(&mut r) } ),+);
                let b = $ty::new($( { let _ = stringify!($c); random_value::<$s>(&mut r) } ),+);
                let x = if i % 5 == 0 { [0.0f32, 1.0, 0.5][(i / 5) as usize % 3] } else { r.unit() as f32 };
                acc.eval();
                match catch(|| Lerp::lerp(&a, &b, x)) {
                    Ok(v) => {
                        $(
                            let want = a.$c.lerp(&b.$c, x);
                            if v.$c.to64().to_bits() != want.to64().to_bits() && !(v.$c.to64() == 0.0 && want.to64() == 0.0) {
                                acc.violation(concat!("c14:glam:", stringify!($ty)), format!("{}::lerp component {} = {:?}, scalar lerp gives {:?} (a={:?}, b={:?}, x={x})", stringify!($ty), stringify!($c), v.$c, want, a, b),
                                    case_json(99, i, vec![("type", J::s(stringify!($ty)))]));
                            }
                        )+
                    }
                    Err(msg) => acc.violation(concat!("c14:glam-panic:", stringify!($ty)), format!("{}::lerp panicked: {msg}", stringify!($ty)), case_json(99, i, vec![("type", J::s(stringify!($ty)))])),
                }
            }
            acc.sig(concat!("glam|", stringify!($ty)));
        }};
    }
    vecn!(Vec2, f32, [x, y]);
    vecn!(Vec3, f32, [x, y, z]);
    vecn!(Vec3A, f32, [x, y, z]);
    vecn!(Vec4, f32, [x, y, z, w]);
    vecn!(DVec2, f64, [x, y]);
    vecn!(DVec3, f64, [x, y, z]);
    vecn!(DVec4, f64, [x, y, z, w]);
    vecn!(IVec2, i32, [x, y]);
    vecn!(IVec3, i32, [x, y, z]);
    vecn!(IVec4, i32, [x, y, z, w]);
    vecn!(UVec2, u32, [x, y]);
    vecn!(UVec3, u32, [x, y, z]);
    vecn!(UVec4, u32, [x, y, z, w]);
    vecn!(I64Vec2, i64, [x, y]);
    vecn!(I64Vec3, i64, [x, y, z]);
    vecn!(I64Vec4, i64, [x, y, z, w]);
    vecn!(U64Vec2, u64, [x, y]);
    vecn!(U64Vec3, u64, [x, y, z]);
    vecn!(U64Vec4, u64, [x, y, z, w]);
}

pub fn run(run: &mut Run) {
    let thorough = run.thorough();
    run.rule = "u8 and i8: all 65 536 (a,b) pairs x the x grid (k/256, 0.1-style non-dyadics, ulp-neighbours of 0, 1/2, 1) \
        exhaustively; i16/u16/i32/u32/i64/u64/usize/f32/f64: boundary values crossed with each other plus random \
        f32-representable pairs, for a subset of boundary pairs the f32 x axis of [0,1] at stride 17 (thorough); glam \
        vector types against the scalar lerp; clauses: exact ends, lerp(a,a,x)=a, betweenness, monotone in x, nearest \
        to the real interpolation, no panic; non-trivial = a != b; distinct = (type, sign class, magnitude class, \
        direction) observed"
        .into();
    run.assumptions = vec![
        "integer results of wide types may deviate from the real interpolation by 2 ulp32(max(|a|,|b|)) (f32 arithmetic of a(1-x)+bx)".into(),
        "std::panic::catch_unwind observes every panic".into(),
    ];
    run.min_sigs = 60;
    let seed = run.seed;
    let rc = run.replay_case();
    let xs = xgrid(thorough);
    let n_random: u64 = if thorough { 1_000_000 } else { 100_000 };
    run.extra.push(("x_grid_points".into(), J::U(xs.len() as u64)));
    run.parallel(|w, nw, acc| {
        if rc.is_none() {
            exhaustive8::<u8>(acc, w, nw, &xs, 1);
            exhaustive8::<i8>(acc, w, nw, &xs, 2);
        } else if let Some((s, i)) = rc {
            if s == 1 || s == 2 {
                let (a, b) = (((i - 1) / 256) as i64, ((i - 1) % 256) as i64);
                if s == 1 { check_pair::<u8>(a as u8, b as u8, &xs, acc, s, i) } else { check_pair::<i8>((a - 128) as i8, (b - 128) as i8, &xs, acc, s, i) }
            }
        }
        wide::<i16>(acc, w, nw, &xs, 3, seed, n_random, rc, thorough);
        wide::<u16>(acc, w, nw, &xs, 4, seed, n_random, rc, thorough);
        wide::<i32>(acc, w, nw, &xs, 5, seed, n_random, rc, thorough);
        wide::<u32>(acc, w, nw, &xs, 6, seed, n_random, rc, thorough);
        wide::<i64>(acc, w, nw, &xs, 7, seed, n_random, rc, thorough);
        wide::<u64>(acc, w, nw, &xs, 8, seed, n_random, rc, thorough);
        wide::<usize>(acc, w, nw, &xs, 9, seed, n_random, rc, thorough);
        wide::<f32>(acc, w, nw, &xs, 10, seed, n_random, rc, thorough);
        wide::<f64>(acc, w, nw, &xs, 11, seed, n_random, rc, thorough);
        if w == 0 && rc.is_none() {
            glam_checks(acc, seed, if thorough { 20000 } else { 2000 });
        }
    });
    run.acc.samples.push(J::obj(vec![("type", J::s("u8")), ("pairs", J::s("all 256x256")), ("x_grid", J::U(xs.len() as u64))]));
    run.acc.samples.push(J::obj(vec![("type", J::s("i8")), ("a", J::I(-128)), ("b", J::I(127)), ("x", J::F(0.5)), ("observed", J::F((-128i8).lerp(&127, 0.5) as f64))]));
    run.exhaustive = Some(false);
    run.extra.push(("exhaustive_8bit".into(), J::B(true)));
}
