//! C06 — frame-rate independence: only total elapsed time matters (relational, two real animators).

use crate::checks::anim::*;
use crate::shapes::*;
use crate::spec::*;
use crate::util::*;
use mina::StateAnimator;

const STREAM_EXACT: u64 = 1;
const STREAM_INEXACT: u64 = 2;

pub fn run(run: &mut Run) {
    let thorough = run.thorough();
    let mmax: u32 = if thorough { 12 } else { 9 };
    run.rule = format!(
        "base histories (state changes separated by intervals T = m*u, u in {{1/512, 1/64, 1/8, 1}} s, m <= {mmax}; in a third of them every state first lives for 2^10..2^18 s and the interval is also delivered in quarter units) on pool and \
        random animator configurations; every interval is replaced by EVERY composition of m into 1..m parts (2^(m-1) \
        schedules), also with zero-length advances inserted at every position; values at each transition point and at \
        the end, is_ended and current_state must be bit-identical to the single-step run; advance(0) must change nothing; \
        second family: arbitrary f32 splits a+b (and 3-way splits) of arbitrary T compared against the envelope of \
        single-step runs at T and its f32 neighbours up to +-2 max(ulp32 T, #steps*(1ns + ulp32 T)); non-trivial = interval delivered in >= 2 steps on an \
        animated state; distinct = (composition length, contains zero step, interval crosses delay / cycle wrap / end, \
        configuration kind)"
    );
    run.assumptions = vec!["grid units convert to Duration exactly (1/512 s = 1 953 125 ns)".into()];
    run.min_sigs = 20;
    let seed = run.seed;
    let rc = run.replay_case();
    let n_exact: u64 = if thorough { 40_000 } else { 6_000 };
    let n_inexact: u64 = if thorough { 2_000_000 } else { 200_000 };
    let pool = fixed_pool();
    run.parallel(|w, nw, acc| {
        for i in my_cases(rc, STREAM_EXACT, n_exact, w, nw) {
            guarded(acc, "c06", STREAM_EXACT, i, |acc| {
                let mut r = Rng::derive(seed, STREAM_EXACT, i);
                if i % 2 == 0 {
                    let cfg = &pool[(i / 2) as usize % pool.len()];
                    exact_case::<S4>(cfg, &mut r, acc, i, mmax);
                } else {
                    let shape = r.usize(crate::shapes::N_SHAPES);
                    crate::with_shape!(shape, exact_random(&mut r, acc, i, mmax));
                }
            });
        }
        for i in my_cases(rc, STREAM_INEXACT, n_inexact, w, nw) {
            guarded(acc, "c06", STREAM_INEXACT, i, |acc| {
                let mut r = Rng::derive(seed, STREAM_INEXACT, i);
                let shape = r.usize(crate::shapes::N_SHAPES);
                if i % 16 == 5 {
                    crate::with_shape!(shape, landing_case(&mut r, acc, i));
                } else if i % 16 == 11 {
                    crate::with_shape!(shape, huge_case(&mut r, acc, i));
                } else {
                    crate::with_shape!(shape, inexact_case(&mut r, acc, i));
                }
            });
        }
    });
}

fn exact_random<S: Shape>(r: &mut Rng, acc: &mut Acc, index: u64, mmax: u32) {
    let spec = random_anim::<S>(r);
    exact_case::<S>(&spec, r, acc, index, mmax);
}

/// Observation points of a run: values/state/ended just before every Set and at the end.
fn run_schedule<S: Shape>(spec: &AnimSpec, segs: &[(usize, Vec<f32>)], acc: &mut Acc, check_zero: bool) -> Result<Vec<(S, usize, bool)>, String> {
    let mut a = build_anim::<S>(spec);
    let mut obs = Vec::new();
    for (st, steps) in segs {
        a.set_state(&STATES[*st]);
        for d in steps {
            let before = if *d == 0.0 && check_zero { Some((a.current_values().clone(), a.is_ended())) } else { None };
            a.advance(*d);
            if let Some((v, e)) = before {
                acc.eval();
                if !same_all(&v, a.current_values()) || e != a.is_ended() {
                    return Err(format!("advance(0) changed current_values from {:?} to {:?} (is_ended {} -> {})", v.vals(), a.current_values().vals(), e, a.is_ended()));
                }
            }
        }
        obs.push((a.current_values().clone(), a.current_state().idx(), a.is_ended()));
    }
    Ok(obs)
}

fn compositions(m: u32) -> Vec<Vec<u32>> {
    // all 2^(m-1) compositions of m
    let mut out = Vec::new();
    for mask in 0..(1u32 << (m - 1)) {
        let mut parts = Vec::new();
        let mut cur = 1;
        for b in 0..(m - 1) {
            if mask & (1 << b) != 0 {
                parts.push(cur);
                cur = 1;
            } else {
                cur += 1;
            }
        }
        parts.push(cur);
        out.push(parts);
    }
    out
}

fn exact_case<S: Shape>(spec: &AnimSpec, r: &mut Rng, acc: &mut Acc, index: u64, mmax: u32) {
    let n_seg = 2 + r.usize(3);
    let u = *r.pick(&[1.0f32 / 512.0, 1.0 / 64.0, 1.0 / 8.0, 1.0 / 8.0, 1.0]);
    // m = 0: the state is left again in the same frame (no advance at all between two state changes); the
    // variants then insert zero-length advances into that empty interval
    let base: Vec<(usize, u32)> = (0..n_seg).map(|k| (r.usize(5), if k + 1 < n_seg && r.chance(1, 4) { 0 } else { 2 + r.below(mmax as u64 - 1) as u32 })).collect();
    // long-lived states: one third of the histories first spend a huge (dyadic, exactly representable)
    // time in each state, so that the accumulated time has few spare low-order bits in f32; the total
    // big + m*u stays exactly representable in f32 (u is raised to the f32 resolution at `big`).
    let big: f32 = if r.chance(1, 3) { (1u32 << (10 + r.below(9))) as f32 } else { 0.0 };
    let u = if big > 0.0 { u.max(big / 4_194_304.0).max(1.0 / 128.0) } else { u };
    let reference_segs: Vec<(usize, Vec<f32>)> = base
        .iter()
        .map(|(s, m)| (*s, if *m == 0 { vec![] } else if big > 0.0 { vec![big, *m as f32 * u] } else { vec![*m as f32 * u] }))
        .collect();
    let case = |segs: &[(usize, Vec<f32>)], what: &str| {
        case_json(STREAM_EXACT, index, vec![
            ("shape", J::s(S::NAME)), ("animator", spec.json()), ("unit_seconds", J::F(u as f64)),
            ("reference_schedule", J::A(reference_segs.iter().map(|(s, st)| J::obj(vec![("state", J::U(*s as u64)), ("steps", J::A(st.iter().map(|x| J::F(*x as f64)).collect()))])).collect())),
            ("schedule", J::A(segs.iter().map(|(s, st)| J::obj(vec![("state", J::U(*s as u64)), ("steps", J::A(st.iter().map(|x| J::F(*x as f64)).collect()))])).collect())),
            ("clause", J::s(what)),
        ])
    };
    let reference = match run_schedule::<S>(spec, &reference_segs, acc, true) {
        Ok(o) => o,
        Err(e) => {
            acc.violation("c06:advance0", e, case(&reference_segs, "advance(0)"));
            return;
        }
    };
    for (si, (_, m)) in base.iter().enumerate() {
        if *m == 0 {
            for nz in [1usize, 2] {
                let mut segs = reference_segs.clone();
                segs[si].1 = vec![0.0; nz];
                acc.eval();
                match run_schedule::<S>(spec, &segs, acc, true) {
                    Err(e) => {
                        acc.violation("c06:advance0", e, case(&segs, "advance(0) changes nothing"));
                        return;
                    }
                    Ok(obs) => {
                        for (k, (o, rf)) in obs.iter().zip(reference.iter()).enumerate() {
                            if !same_all(&o.0, &rf.0) || o.1 != rf.1 || o.2 != rf.2 {
                                acc.violation(
                                    "c06:zero-advance-between-state-changes",
                                    format!("{nz} zero-length advance(s) inserted between two state changes of the same frame (segment #{si}): at observation point {k} values {:?} (ended {}) but without them {:?} (ended {})", o.0.vals(), o.2, rf.0.vals(), rf.2),
                                    case(&segs, "inserting zero-length advances anywhere changes nothing"),
                                );
                                return;
                            }
                        }
                    }
                }
            }
            acc.sig(format!("same-frame-transition|{}|next={}", if spec.animated(base[si].0) { "animated" } else { "idle" }, if spec.animated(base[si + 1].0) { "animated" } else { "idle" }));
            continue;
        }
        let comps = compositions(*m);
        for (ci, parts) in comps.iter().enumerate() {
            for zeros in [false, true] {
                if zeros && ci % 5 != 0 {
                    continue;
                }
                let mut segs = reference_segs.clone();
                let mut steps: Vec<f32> = Vec::new();
                if big > 0.0 {
                    steps.push(big);
                }
                // when the state is long-lived the interval is additionally delivered in quarter units
                // (each exactly representable, but not their running sum in f32 arithmetic)
                let sub = if big > 0.0 && ci % 2 == 1 { 4 } else { 1 };
                for p in parts {
                    if zeros {
                        steps.push(0.0);
                    }
                    for _ in 0..sub {
                        steps.push(*p as f32 * u / sub as f32);
                    }
                }
                if zeros {
                    steps.push(0.0);
                }
                segs[si].1 = steps;
                acc.eval();
                match run_schedule::<S>(spec, &segs, acc, true) {
                    Err(e) => {
                        acc.violation("c06:advance0", e, case(&segs, "advance(0) changes nothing"));
                        return;
                    }
                    Ok(obs) => {
                        for (k, (o, rf)) in obs.iter().zip(reference.iter()).enumerate() {
                            if !same_all(&o.0, &rf.0) || o.1 != rf.1 || o.2 != rf.2 {
                                acc.violation(
                                    if zeros { "c06:exact-with-zero-steps" } else { "c06:exact" },
                                    format!("interval #{si} of {} x {u}s delivered as {:?} units{}: at observation point {k} values {:?} (ended {}) but the single-step run gives {:?} (ended {})",
                                        m, parts, if zeros { " with zero-length advances interleaved" } else { "" }, o.0.vals(), o.2, rf.0.vals(), rf.2),
                                    case(&segs, "same total time => same values"),
                                );
                                return;
                            }
                        }
                    }
                }
                if parts.len() >= 2 && spec.animated(base[si].0) {
                    let total = spec.total(base[si].0);
                    let tt = (*m as f32 * u) as f64;
                    let cross = if tt >= total { "crosses-end" } else if spec.states[base[si].0].iter().any(|t| t.delay > 0.0 && (t.delay as f64) < tt) { "crosses-delay" } else if spec.states[base[si].0].iter().any(|t| (t.cycle as f64) < tt) { "crosses-cycle" } else { "inside" };
                    acc.sig(format!("parts{}|zeros={zeros}|{cross}|{}|long-lived={}", parts.len().min(6), spec.states[base[si].0][0].kind_name(), big > 0.0));
                }
            }
        }
    }
    acc.sample(2, || case(&reference_segs, "all compositions of every interval agreed bit-for-bit with this single-step schedule"));
}

/// A `Times(n)` timeline with a cycle off the dyadic grid is delivered cycle by cycle (so that some step lands on
/// the f32 total, where `is_ended()` may already hold while the position is still the start of a further cycle —
/// DESIGN §9.8), in one step, or in halves; every schedule then continues well past the end. Whatever happened at
/// the landing instant, the values a second or more after the end depend on the total time only: all schedules
/// must show bit-identical (terminal) values there.
fn landing_case<S: Shape>(r: &mut Rng, acc: &mut Acc, index: u64) {
    let mut spec = random_anim::<S>(r);
    let Some(st) = (0..5).find(|k| spec.animated(*k)) else { return };
    let (c, n) = (*r.pick(&[0.1f32, 0.3, 0.7, 0.15, 0.6]), *r.pick(&[1u32, 2, 4, 6]));
    spec.states[st].truncate(1);
    {
        let t = &mut spec.states[st][0];
        t.cycle = c;
        t.delay = *r.pick(&[0.0f32, 0.0, 0.1, 0.25]);
        t.repeat = Rep::Times(n);
    }
    let total = spec.total(st);
    if !total.is_finite() {
        return;
    }
    let d = spec.states[st][0].delay;
    let tail = [c, 1.0f32, 0.0, 64.0];
    let mut schedules: Vec<Vec<f32>> = Vec::new();
    let mut by_cycle: Vec<f32> = if d > 0.0 { vec![d] } else { vec![] };
    by_cycle.extend(std::iter::repeat(c).take(n as usize + 1));
    schedules.push(by_cycle);
    schedules.push(vec![total as f32]);
    schedules.push(vec![(total / 2.0) as f32, (total / 2.0) as f32]);
    schedules.push(vec![(total + 2.0) as f32]);
    let mut finals: Vec<(S, bool)> = Vec::new();
    for sch in &schedules {
        let mut a = build_anim::<S>(&spec);
        a.set_state(&STATES[(st + 1) % 5]);
        a.advance(0.125);
        a.set_state(&STATES[st]);
        for x in sch.iter().chain(tail.iter()) {
            a.advance(*x);
        }
        acc.eval();
        finals.push((a.current_values().clone(), a.is_ended()));
    }
    for (k, fin) in finals.iter().enumerate().skip(1) {
        if !same_all(&fin.0, &finals[0].0) || fin.1 != finals[0].1 {
            acc.violation(
                "c06:after-landing-on-the-end",
                format!(
                    "state {st} (cycle {c}, Times({n}), delay {d}): delivered as {:?} then {:?} the values are {:?} (ended {}), delivered as {:?} then the same tail they are {:?} (ended {})",
                    schedules[0], tail, finals[0].0.vals(), finals[0].1, schedules[k], fin.0.vals(), fin.1
                ),
                case_json(STREAM_INEXACT, index, vec![("shape", J::s(S::NAME)), ("animator", spec.json()), ("state", J::U(st as u64)), ("clause", J::s("values well after the end depend on the total time only"))]),
            );
            return;
        }
    }
    acc.sig(format!("landing|c={c}|n={n}|delay={}", d > 0.0));
}

/// A total "longer than anything" (beyond 2^64 s, the most a `Duration` holds, up to f32::MAX), delivered before,
/// after or together with an ordinary step: a finite animation is over whichever way the time arrived — values,
/// state and is_ended must be identical — and a zero-length advance afterwards changes nothing (also for an
/// endless timeline, whose phase at such a time is otherwise undetermined and not compared).
fn huge_case<S: Shape>(r: &mut Rng, acc: &mut Acc, index: u64) {
    let spec = random_anim::<S>(r);
    let st = r.usize(5);
    let h = *r.pick(&[1.9e19f32, 1.0e20, 3.0e30, f32::MAX, 1.8446744e19]);
    let a = *r.pick(&[0.125f32, 1.0, 0.001953125, 0.3, 7.5]);
    let pre = ((st + 1 + r.usize(4)) % 5, vec![0.125f32]);
    let schedules: Vec<Vec<f32>> = vec![vec![a, h, 0.0], vec![h, 0.0], vec![h, a, 0.0], vec![a, 0.0, h], vec![a, a, h, 0.0, 1.0]];
    let case = |what: &str| case_json(STREAM_INEXACT, index, vec![("shape", J::s(S::NAME)), ("animator", spec.json()), ("state", J::U(st as u64)), ("huge", J::F(h as f64)), ("small", J::F(a as f64)), ("clause", J::s(what))]);
    let mut finals: Vec<(S, usize, bool)> = Vec::new();
    for sch in &schedules {
        match run_schedule::<S>(&spec, &[pre.clone(), (st, sch.clone())], acc, true) {
            Ok(obs) => finals.push(obs.last().unwrap().clone()),
            Err(e) => {
                acc.violation("c06:zero-step-after-huge", format!("state {st}, steps {:?}: {e}", sch), case("advance(0) changes nothing"));
                return;
            }
        }
        acc.eval();
    }
    let finite = !spec.animated(st) || spec.total(st).is_finite();
    if finite {
        for (k, fin) in finals.iter().enumerate().skip(1) {
            if !same_all(&fin.0, &finals[0].0) || fin.1 != finals[0].1 || fin.2 != finals[0].2 {
                acc.violation(
                    "c06:huge-total",
                    format!("state {st}: delivered as {:?} the values are {:?} (ended {}), delivered as {:?} they are {:?} (ended {})", schedules[0], finals[0].0.vals(), finals[0].2, schedules[k], fin.0.vals(), fin.2),
                    case("values after a time longer than anything depend on the total only"),
                );
                return;
            }
        }
    }
    acc.sig(format!("huge|finite={finite}|animated={}|h={h}", spec.animated(st)));
}

fn inexact_case<S: Shape>(r: &mut Rng, acc: &mut Acc, index: u64) {
    let spec = random_anim::<S>(r);
    let st = r.usize(5);
    let t: f32 = match r.below(3) {
        0 => (r.unit() * 0.5) as f32,
        1 => (r.unit() * 4.0) as f32,
        _ => (r.unit() * 30.0) as f32,
    };
    let n_parts = 2 + r.usize(3);
    // random split of t into n parts (f32 arithmetic; the parts need not sum exactly)
    let mut cuts: Vec<f64> = (0..n_parts - 1).map(|_| r.unit()).collect();
    cuts.sort_by(|a, b| a.total_cmp(b));
    let mut parts: Vec<f32> = Vec::new();
    let mut prev = 0.0f64;
    for c in cuts {
        parts.push(((c - prev) * t as f64) as f32);
        prev = c;
    }
    parts.push(((1.0 - prev) * t as f64) as f32);
    let sum: f64 = parts.iter().map(|p| *p as f64).sum();
    let d = (n_parts as f64) * (1e-9 + ulp32(t) as f64) + (sum - t as f64).abs();
    let run1 = |tt: f32| -> (S, bool) {
        let mut a = build_anim::<S>(&spec);
        a.set_state(&STATES[st]);
        a.advance(tt.max(0.0));
        (a.current_values().clone(), a.is_ended())
    };
    // envelope: single-step runs at the f32 neighbours of T (at least one ulp32(T) and at least d apart)
    let h = (ulp32(t) as f64).max(d);
    let refs = [
        run1((t as f64 - 2.0 * h) as f32), run1((t as f64 - h) as f32), run1(t), run1((t as f64 + h) as f32), run1((t as f64 + 2.0 * h) as f32),
        run1(sum as f32), run1(next_down(sum as f32)), run1(next_up(sum as f32)),
    ];
    let mut a = build_anim::<S>(&spec);
    a.set_state(&STATES[st]);
    for p in &parts {
        a.advance(*p);
    }
    acc.eval();
    let got = a.current_values();
    for f in 0..S::n() {
        let vals: Vec<f64> = refs.iter().map(|x| x.0.get(f)).collect();
        let lo = vals.iter().cloned().fold(f64::INFINITY, f64::min);
        let hi = vals.iter().cloned().fold(f64::NEG_INFINITY, f64::max);
        let slack = (hi - lo).abs() * 0.5 + (lo.abs() + hi.abs()) * 1e-5 + if S::KINDS[f].is_int() { 1.0 } else { 1e-6 };
        let g = got.get(f);
        if hi - lo > 1.0 + (lo.abs() + hi.abs()) * 1e-3 {
            acc.count("inconclusive_band", 1);
            continue;
        }
        if g < lo - slack || g > hi + slack {
            acc.violation(
                "c06:inexact",
                format!("advance in parts {:?} (sum {sum}) gives field {} = {g}; single-step runs at T and its f32 neighbours give {:?}", parts, S::FIELDS[f], vals),
                case_json(STREAM_INEXACT, index, vec![("shape", J::s(S::NAME)), ("animator", spec.json()), ("state", J::U(st as u64)), ("T", J::F(t as f64)), ("parts", J::A(parts.iter().map(|p| J::F(*p as f64)).collect()))]),
            );
            return;
        }
    }
    if spec.animated(st) {
        acc.sig(format!("inexact|parts{n_parts}|{}", spec.states[st][0].kind_name()));
    }
}
