//! C12 — a merged timeline is an ordered overlay with aggregate timing (relational).

use crate::shapes::*;
use crate::spec::*;
use crate::util::*;
use crate::with_shape;
use mina::{MergedTimeline, Timeline};

const STREAM: u64 = 1;

pub fn run(run: &mut Run) {
    run.rule = "lists of 0..4 real component timelines with overlapping or disjoint property sets and heterogeneous \
        (delay, cycle, repeat, reverse), repeat alphabet incl. Times(u32::MAX) and Infinite; oracle: merged.update == \
        applying the components in order to a copy (bit-exact), order-independence for disjoint property sets, \
        start_with reaches every component, delay = min, duration = max (inf if any), repeat = max (Infinite > every \
        Times), cycle_duration = Some(c) iff all equal, single-component merge == the component, empty merge touches \
        nothing; non-trivial = >= 2 components; distinct = (#components, overlap?, timing heterogeneity, phase)"
        .into();
    run.min_sigs = 30;
    let n: u64 = if run.thorough() { 1_000_000 } else { 160_000 };
    let seed = run.seed;
    let rc = run.replay_case();
    run.parallel(|w, nw, acc| {
        for i in my_cases(rc, STREAM, n, w, nw) {
            guarded(acc, "c12", STREAM, i, |acc| {
                let mut r = Rng::derive(seed, STREAM, i);
                let shape = r.usize(crate::shapes::N_SHAPES);
                with_shape!(shape, case(&mut r, acc, i));
            });
        }
    });
}

fn rep_rank(r: Rep) -> u64 {
    match r {
        Rep::None => 0,
        Rep::Times(n) => n as u64,
        Rep::Infinite => u64::MAX,
    }
}

fn case<S: Shape>(r: &mut Rng, acc: &mut Acc, index: u64) {
    let kinds = &S::KINDS[..S::N_ANIM];
    let n_comp = *r.pick(&[0usize, 1, 2, 2, 3, 3, 4]);
    let disjoint = r.chance(1, 2);
    let mut specs: Vec<TlSpec> = Vec::new();
    for ci in 0..n_comp {
        let mut s = gen_tl(r, kinds, &GenOpts { min_kf: 1, neg_delay: true, shuffle: true, ..GenOpts::default() });
        if r.chance(1, 6) {
            s.repeat = *r.pick(&[Rep::Times(u32::MAX), Rep::Times(u32::MAX - 1), Rep::Times(1 << 20), Rep::Infinite, Rep::Times(7)]);
        }
        if r.chance(1, 3) && ci > 0 {
            // same cycle as the first component now and then
            s.cycle = specs[0].cycle;
        } else if r.chance(1, 3) && ci > 1 {
            // ... or as the previous one (a disagreeing head followed by an agreeing tail)
            s.cycle = specs[ci - 1].cycle;
        }
        if r.chance(1, 10) {
            // a component whose whole active span vanishes next to its delay in f32 (delay + cycle x (n+1) == delay):
            // it still shows its 0 % / start values while waiting and its terminal values afterwards
            s.delay = *r.pick(&[1.0f32, 3.0, 0.5]);
            s.cycle = *r.pick(&[1.0e-9f32, 1.0e-12, 3.0e-10]);
            s.repeat = *r.pick(&[Rep::None, Rep::Times(1), Rep::Times(3)]);
        }
        if disjoint {
            for k in s.kfs.iter_mut() {
                for f in 0..S::N_ANIM {
                    if f % n_comp.max(1) != ci {
                        k.vals[f] = None;
                    }
                }
            }
        }
        specs.push(s);
    }
    let comps: Vec<S::Tl> = specs.iter().map(|s| S::build_tl(s)).collect();
    let mut merged = MergedTimeline::of(comps.iter().cloned());
    let mut comps = comps;
    let with_start = r.chance(1, 2);
    let sv: Vec<f64> = S::KINDS.iter().map(|k| gen_value(r, *k)).collect();
    // (a clone taken before start_with stays alive: the substitution must still reach every component of `merged`)
    let _kept_alive = if r.chance(1, 2) { Some(merged.clone()) } else { None };
    if with_start {
        let v = S::from_vals(&sv);
        merged.start_with(&v);
        for c in comps.iter_mut() {
            c.start_with(&v);
        }
    }
    let case = |what: &str, t: f32| {
        case_json(STREAM, index, vec![
            ("shape", J::s(S::NAME)), ("components", J::A(specs.iter().map(|s| s.json()).collect())),
            ("start_with", if with_start { J::A(sv.iter().map(|x| J::F(*x)).collect()) } else { J::Null }), ("t", J::F(t as f64)), ("clause", J::s(what)),
        ])
    };
    // ---- aggregate timing
    acc.eval();
    if n_comp > 0 {
        let want_delay = specs.iter().map(|s| s.delay).fold(f32::INFINITY, f32::min);
        let want_rep = specs.iter().map(|s| s.repeat).max_by_key(|r| rep_rank(*r)).unwrap();
        let want_dur = comps.iter().map(|c| c.duration()).fold(f32::NEG_INFINITY, f32::max);
        let any_inf = specs.iter().any(|s| s.repeat == Rep::Infinite);
        let all_same_cycle = specs.iter().all(|s| s.cycle.to_bits() == specs[0].cycle.to_bits());
        if !same_f32(merged.delay(), want_delay) {
            acc.violation("c12:delay", format!("merged delay {} but the smallest component delay is {want_delay}", merged.delay()), case("delay=min", 0.0));
        }
        let got_rep = Rep::from_mina(merged.repeat());
        if rep_rank(got_rep) != rep_rank(want_rep) || (want_rep == Rep::Infinite) != (got_rep == Rep::Infinite) {
            acc.violation("c12:repeat", format!("merged repeat {:?} but the largest component repeat is {:?}", got_rep, want_rep), case("repeat=max", 0.0));
        }
        let d = merged.duration();
        if any_inf != (d == f32::INFINITY) || (!any_inf && d.to_bits() != want_dur.to_bits()) {
            acc.violation("c12:duration", format!("merged duration {d} but the largest component duration is {want_dur} (any infinite: {any_inf})"), case("duration=max", 0.0));
        }
        let cd = merged.cycle_duration();
        let want_cd = if all_same_cycle { Some(specs[0].cycle) } else { None };
        if cd.map(|x| x.to_bits()) != want_cd.map(|x| x.to_bits()) {
            acc.violation("c12:cycle", format!("merged cycle_duration {:?}, expected {:?}", cd, want_cd), case("cycle=common-or-none", 0.0));
        }
        if n_comp == 1 {
            let c = &comps[0];
            if !same_f32(merged.delay(), c.delay()) || merged.duration().to_bits() != c.duration().to_bits() || merged.repeat() != c.repeat() || merged.cycle_duration().map(|x| x.to_bits()) != c.cycle_duration().map(|x| x.to_bits()) {
                acc.violation("c12:single", "wrapping a single timeline changed its metadata".to_string(), case("single==component", 0.0));
            }
        }
    }
    // ---- evaluation
    let mut times: Vec<f32> = vec![-1.0, 0.0];
    for s in &specs {
        times.extend(phase_times(s, &[0.0, 0.1875, 0.5, 0.8125, 1.0], r));
    }
    for _ in 0..6 {
        times.push((r.unit() * 15.0) as f32);
    }
    let overlap = (0..S::N_ANIM).any(|f| specs.iter().filter(|s| s.defines(f)).count() > 1);
    for t in times {
        let init = crate::checks::c08::fill_sentinels::<S>(r);
        let mut got = init.clone();
        merged.update(&mut got, t);
        let mut want = init.clone();
        for c in &comps {
            c.update(&mut want, t);
        }
        acc.eval();
        for f in 0..S::n() {
            if got.bits(f) != want.bits(f) {
                acc.violation(
                    if n_comp == 0 { "c12:empty" } else if with_start { "c12:overlay-start_with" } else { "c12:overlay" },
                    format!("merged.update gives field {} = {} at t={t}, applying the {} components in order gives {}", S::FIELDS[f], got.get(f), n_comp, want.get(f)),
                    case("overlay-in-order", t),
                );
                break;
            }
        }
        if n_comp >= 2 {
            // nesting: a merged timeline of (first k components merged, the rest merged) is the same overlay
            let k = 1 + (t.to_bits() as usize) % (n_comp - 1);
            let mut left = MergedTimeline::of(comps[..k].iter().cloned());
            let mut right = MergedTimeline::of(comps[k..].iter().cloned());
            let _ = (&mut left, &mut right);
            let nested = MergedTimeline::of([left, right]);
            let mut g3 = init.clone();
            nested.update(&mut g3, t);
            acc.eval();
            if g3.all_bits() != got.all_bits() {
                acc.violation("c12:nested", format!("merged-of-merged (split after {k}) differs from the flat merged timeline at t={t}"), case("nesting", t));
            }
            // (a half whose members disagree reports no cycle duration, which agrees with nothing)
            if !same_f32(nested.delay(), merged.delay())
                || nested.duration().to_bits() != merged.duration().to_bits()
                || nested.repeat() != merged.repeat()
                || nested.cycle_duration().map(|x| x.to_bits()) != merged.cycle_duration().map(|x| x.to_bits())
            {
                acc.violation("c12:nested-meta", "merged-of-merged reports different aggregate timing than the flat merged timeline".to_string(), case("nesting-metadata", t));
            }
        }
        if disjoint && n_comp >= 2 {
            // order irrelevant for disjoint property sets
            let mut order: Vec<usize> = (0..n_comp).collect();
            r.shuffle(&mut order);
            let m2 = MergedTimeline::of(order.iter().map(|i| comps[*i].clone()));
            let mut g2 = init.clone();
            m2.update(&mut g2, t);
            acc.eval();
            if g2.all_bits() != got.all_bits() {
                acc.violation("c12:order-disjoint", format!("disjoint components merged in order {:?} give a different result at t={t}", order), case("order-irrelevant-when-disjoint", t));
            }
        }
        if n_comp >= 2 {
            let m = crate::model::mscale_spec(&specs[0], t as f64);
            let het = specs.iter().any(|s| s.delay != specs[0].delay || s.cycle != specs[0].cycle || s.repeat != specs[0].repeat);
            acc.sig(format!("n{n_comp}|overlap={overlap}|het={het}|{}|start={with_start}", m.class()));
        }
    }
    if n_comp >= 2 {
        acc.sample(3, || case("merged == ordered overlay at all sampled times; aggregates agree", 0.5));
    } else {
        acc.sig(format!("n{n_comp}"));
    }
}
