//! C03 — delay/repeat/reverse map time to a bounded, periodic, mirrored position.
//!
//! Dense / exhaustive sweep of the f32 time axis for a list of timing configurations, observed at
//! `TimeScale::get_position` and through the public route `Timeline::update` of a linear 0→1 probe
//! property; oracle = M-scale in f64 with the boundary band of DESIGN §3.2; an exact dyadic grid
//! part with bit-exact comparison and the periodicity / mirror relations; metadata accessors.

use crate::model::{mscale, Phase};
use crate::shapes::{Shape, S1};
use crate::spec::*;
use crate::util::*;
use mina::{TimeScale, Timeline};
use mina_core::time_scale::TimeScalePosition;

#[derive(Clone, Copy, Debug)]
struct Cfg {
    cycle: f32,
    delay: f32,
    rep: Rep,
    rev: bool,
}

impl Cfg {
    fn json(&self) -> J {
        J::obj(vec![
            ("cycle", J::F(self.cycle as f64)),
            ("delay", J::F(self.delay as f64)),
            ("repeat", J::s(self.rep.name())),
            ("reverse", J::B(self.rev)),
        ])
    }
    fn ts(&self) -> TimeScale {
        TimeScale::new(self.cycle, self.delay, self.rep.to_mina(), self.rev)
    }
    /// Two linear probes whose value equals the position bit for bit: one with keyframes at 0 % and
    /// 100 %, one without a 0 % keyframe (implicit default 0.0 at 0 %, then 50 % -> 0.5, 100 % -> 1.0; every
    /// step of that interpolation is exact), so that the position the keyframe lookup works with is seen
    /// also while the first keyframe is not at 0 %.
    fn probe(&self) -> [<S1 as Shape>::Tl; 2] {
        let mk = |kfs: Vec<KfSpec>| {
            S1::build_tl(&TlSpec { cycle: self.cycle, delay: self.delay, repeat: self.rep, reverse: self.rev, default_easing: None, kfs })
        };
        [
            mk(vec![KfSpec { pos: 0.0, vals: vec![Some(0.0)], easing: None }, KfSpec { pos: 1.0, vals: vec![Some(1.0)], easing: None }]),
            mk(vec![KfSpec { pos: 0.5, vals: vec![Some(0.5)], easing: None }, KfSpec { pos: 1.0, vals: vec![Some(1.0)], easing: None }]),
        ]
    }
    /// A third probe with three non-collinear keyframes (0 % -> 0, 50 % -> 1, 100 % -> 0.25): where a timeline rests
    /// before its start and after its end (0 % again when reversing) shows in the value, which the linear probes
    /// cannot tell from an extrapolated neighbour segment.
    fn probe3(&self) -> <S1 as Shape>::Tl {
        S1::build_tl(&TlSpec {
            cycle: self.cycle, delay: self.delay, repeat: self.rep, reverse: self.rev, default_easing: None,
            kfs: vec![
                KfSpec { pos: 0.0, vals: vec![Some(0.0)], easing: None },
                KfSpec { pos: 0.5, vals: vec![Some(1.0)], easing: None },
                KfSpec { pos: 1.0, vals: vec![Some(0.25)], easing: None },
            ],
        })
    }
    fn probe3_want(p: f64) -> f64 {
        if p <= 0.5 { 2.0 * p } else { 1.0 - 0.75 * (2.0 * p - 1.0) }
    }
    /// The first probe wrapped into a `MergedTimeline` (the form every timeline takes inside a state animator).
    fn merged_probe(&self) -> mina::MergedTimeline<<S1 as Shape>::Tl> {
        let [p, _] = self.probe();
        mina::MergedTimeline::of([p])
    }
    fn total(&self) -> f64 {
        match self.rep.cycles() {
            Some(n) => self.cycle as f64 * n as f64,
            None => f64::INFINITY,
        }
    }
}

struct Obs {
    phase: Phase,
    pos: f32,
    repeating: bool,
    reversing: bool,
}

fn observe(ts: &TimeScale, t: f32) -> Obs {
    match ts.get_position(t) {
        TimeScalePosition::NotStarted => Obs { phase: Phase::NotStarted, pos: 0.0, repeating: false, reversing: false },
        TimeScalePosition::Active(p, ls) => {
            Obs { phase: Phase::Active, pos: p, repeating: ls.is_repeating, reversing: ls.is_reversing }
        }
        TimeScalePosition::Ended(p) => Obs { phase: Phase::Ended, pos: p, repeating: false, reversing: false },
    }
}

/// Checks one (config, time) pair. Returns a short class string for coverage.
fn check_one(
    cfg: &Cfg,
    ci: usize,
    ts: &TimeScale,
    probe: Option<&[<S1 as Shape>::Tl; 2]>,
    t: f32,
    acc: &mut Acc,
    stream: u64,
    first_ended: &mut f32,
    last_not_ended: &mut f32,
) -> &'static str {
    let o = observe(ts, t);
    acc.eval();
    let case = |what: &str| {
        case_json(stream, ci as u64, vec![("config", cfg.json()), ("t", J::F(t as f64)), ("t_bits", J::U(t.to_bits() as u64)), ("clause", J::s(what))])
    };
    // (i) finite and within [0,1], always
    if !(o.pos >= 0.0 && o.pos <= 1.0) {
        acc.violation("c03:range", format!("position {} outside [0,1] at t={t} for {:?}", o.pos, cfg), case("range"));
        return "bad";
    }
    let (c, d) = (cfg.cycle as f64, cfg.delay as f64);
    let es = t as f64 - d; // exact elapsed time
    let total = cfg.total();
    let e32 = (t - cfg.delay).abs().max(f32::MIN_POSITIVE);
    let delta = ulp32(e32) as f64 * 0.5 + f64::MIN_POSITIVE;
    let band_end = 2.0 * (ulp32(total as f32).max(ulp32(e32)) as f64);
    let m = mscale(c, d, cfg.rep, cfg.rev, t as f64);
    // (ii) phase. Next to the end instant two readings of "time since the delay exceeds cycle x
    // (repeats+1)" are legitimate: the exact one and the one in f32 arithmetic (fl(t-delay) against
    // fl(cycle x fl(repeats+1))). Where they agree the answer is demanded; where they differ either is.
    let near_end = total.is_finite() && (es - total).abs() <= band_end;
    let phase_ok = if near_end {
        let n = cfg.rep.cycles().unwrap() as f32;
        let ended_f32 = (t - cfg.delay) > cfg.cycle * n;
        let ended_exact = es > total;
        if es < 0.0 {
            o.phase == Phase::NotStarted
        } else if ended_f32 == ended_exact {
            (o.phase == Phase::Ended) == ended_exact && o.phase != Phase::NotStarted
        } else {
            o.phase != Phase::NotStarted
        }
    } else {
        o.phase == m.phase
    };
    if !phase_ok {
        acc.violation(
            format!("c03:phase:{:?}->{:?}", m.phase, o.phase),
            format!("phase {:?} at t={t} (elapsed {es}, total {total}) for {:?}; model says {:?}", o.phase, cfg, m.phase),
            case("phase"),
        );
        return "bad";
    }
    if o.phase == Phase::Ended {
        if t < *first_ended {
            *first_ended = t;
        }
    } else if t > *last_not_ended {
        *last_not_ended = t;
    }
    let mut class = match o.phase {
        Phase::NotStarted => "not-started",
        Phase::Ended => "ended",
        Phase::Active => "active",
    };
    match o.phase {
        Phase::NotStarted => {}
        Phase::Ended => {
            let want = if cfg.rev { 0.0 } else { 1.0 };
            if o.pos != want {
                acc.violation("c03:ended-pos", format!("terminal position {} (want {want}) at t={t} for {:?}", o.pos, cfg), case("terminal"));
            }
        }
        Phase::Active => {
            // (iii) position within the envelope of what the model yields over [es-delta, es+delta]
            let eta_abs = delta / c * if cfg.rev { 2.0 } else { 1.0 } + 2.4e-7;
            if delta / c >= 0.25 {
                class = "active-unresolvable";
                acc.count("time_too_large_to_resolve_cycle", 1);
            } else {
                let lo = (es - delta).max(0.0);
                let hi = if total.is_finite() { (es + delta).min(total) } else { es + delta };
                // critical points: multiples of c (wrap / end of pass), and of c/2 when reversing
                let step = if cfg.rev { c / 2.0 } else { c };
                let crit = (lo / step).floor() != (hi / step).floor() || (lo / step).fract() == 0.0 || (hi / step).fract() == 0.0;
                if crit && near_end && total.is_finite() && (t - cfg.delay) < cfg.cycle * cfg.rep.cycles().unwrap() as f32 && es < total && cfg.rep.cycles().unwrap() >= 1 {
                    // just before the end by both readings: the last pass is about to complete, the
                    // position is next to its final value (1, or 0 when reversing), never wrapped to a new cycle
                    class = "active-just-before-end";
                    let want = if cfg.rev { 0.0 } else { 1.0 };
                    if (o.pos as f64 - want).abs() > 4.0 * eta_abs + 1e-5 {
                        acc.violation("c03:wrapped-at-end", format!("position {} one ulp before the end (t={t}) for {:?}; expected ~{want}", o.pos, cfg), case("no wrap before the end"));
                        return "bad";
                    }
                } else if crit {
                    class = "active-boundary-band";
                    acc.count("inconclusive_band", 1);
                    // inside the band any position in [0,1] on the correct side is legitimate; for a
                    // reversing timeline the position is continuous, so it must still be near 0 or 1
                    if cfg.rev {
                        let near = o.pos as f64 <= 2.0 * eta_abs + 1e-6 || o.pos as f64 >= 1.0 - 2.0 * eta_abs - 1e-6;
                        if !near {
                            acc.violation("c03:rev-band", format!("position {} near a turning point at t={t} for {:?}", o.pos, cfg), case("turning-point"));
                        }
                    }
                } else {
                    let mm = mscale(c, 0.0, cfg.rep, cfg.rev, es.max(0.0));
                    if (o.pos as f64 - mm.p).abs() > eta_abs {
                        acc.violation(
                            format!("c03:pos:{}", mm.class()),
                            format!("position {} at t={t} (elapsed {es}) for {:?}; model {} ± {eta_abs}", o.pos, cfg, mm.p),
                            case("position"),
                        );
                        return "bad";
                    }
                    if o.repeating != mm.repeating || o.reversing != mm.reverse_pass {
                        acc.violation(
                            "c03:loopstate",
                            format!("loop state (repeating={}, reversing={}) at t={t} for {:?}; model ({}, {})", o.repeating, o.reversing, cfg, mm.repeating, mm.reverse_pass),
                            case("loop-state"),
                        );
                        return "bad";
                    }
                    class = mm.class();
                }
            }
        }
    }
    // public route: a linear 0->1 probe property shows exactly the position
    for (pi, tl) in probe.into_iter().flatten().enumerate() {
        let mut v = S1 { x: 0.25 };
        tl.update(&mut v, t);
        acc.eval();
        if !same_f32(v.x, o.pos) {
            acc.violation(
                "c03:route",
                format!(
                    "Timeline::update of a linear 0->1 probe ({}) gives {} but the time scale position is {} at t={t} for {:?}",
                    if pi == 0 { "keyframes 0%,100%" } else { "keyframes 50%,100%, none at 0%" },
                    v.x,
                    o.pos,
                    cfg
                ),
                case("update-route"),
            );
        }
    }
    class
}

fn configs(thorough: bool, seed: u64) -> Vec<Cfg> {
    let mut v = vec![
        Cfg { cycle: 1.0, delay: 0.0, rep: Rep::None, rev: false },
        Cfg { cycle: 3.0, delay: 0.5, rep: Rep::Times(3), rev: true },
        Cfg { cycle: 0.1, delay: 2.7, rep: Rep::Infinite, rev: false },
    ];
    if thorough {
        let cycles = [1.0f32, 3.0, 0.1];
        let delays = [0.0f32, 0.5, -0.25, 2.7];
        let reps = [Rep::None, Rep::Times(0), Rep::Times(3), Rep::Infinite];
        let mut n = 0;
        for c in cycles {
            for d in delays {
                for r in reps {
                    for rev in [false, true] {
                        n += 1;
                        // thinned cross product: keep every 4th + all reversing infinite ones
                        if n % 4 == 1 || (rev && r == Rep::Infinite && d != 0.0) {
                            v.push(Cfg { cycle: c, delay: d, rep: r, rev });
                        }
                    }
                }
            }
        }
    }
    // scale extremes: the unit of time is the caller's business, so cycles of 60 ns or 10^20 s, the largest repeat
    // counts and delays of matching scale are configurations like any other
    let mut r = Rng::derive(seed, 304, 0);
    let scales = [6.0e-8f32, 1.0e-12, 1.0e-30, 2.5e5, 1.0e20, 1.0e30];
    for (i, c) in scales.iter().enumerate() {
        let delay = match (i + seed as usize) % 3 {
            0 => 0.0,
            1 => c * 2.5,
            _ => -c * 0.75,
        };
        let rep = *r.pick(&[Rep::None, Rep::Times(2), Rep::Times(5), Rep::Infinite]);
        v.push(Cfg { cycle: *c, delay, rep, rev: r.chance(1, 2) });
    }
    v.push(Cfg { cycle: 0.25, delay: 1.0, rep: Rep::Times(u32::MAX), rev: false });
    v.push(Cfg { cycle: 1.5e-5, delay: 0.0, rep: Rep::Times(u32::MAX - 1), rev: true });
    // "any delay": a negative delay longer than the whole animation (negative total; over before t = 0)
    v.push(Cfg { cycle: 2.0, delay: -5.0, rep: Rep::None, rev: false });
    v.push(Cfg { cycle: 0.5, delay: -7.25, rep: Rep::Times(3), rev: true });
    // random general-regime configurations
    let mut r = Rng::derive(seed, 303, 0);
    let n_rand = if thorough { 120 } else { 48 };
    for _ in 0..n_rand {
        let cycle = (0.01 + r.unit() * 20.0) as f32;
        let delay = if r.chance(1, 4) { 0.0 } else { (r.unit() * 10.0 - 1.0) as f32 };
        let rep = match r.below(5) {
            0 => Rep::None,
            1 => Rep::Times(0),
            2 => Rep::Times(r.below(8) as u32 + 1),
            3 => match r.below(3) {
                0 => Rep::Times(1 << r.below(21)),
                // repeat counts beyond 2^24, where n and n+1 round differently in f32
                1 => Rep::Times((1u32 << 24) + r.below(1 << 12) as u32),
                _ => Rep::Times(((1u64 << (25 + r.below(7))) + r.below(1 << 20)) as u32),
            },
            _ => Rep::Infinite,
        };
        v.push(Cfg { cycle, delay, rep, rev: r.chance(1, 2) });
    }
    v
}

/// Timing written in the `timeline!` grammar (units mixed, words in any order): the accessors must report what the
/// sentence says, and a linear probe must behave accordingly.
fn macro_sentences() -> Vec<(&'static str, <S1 as Shape>::Tl, Cfg)> {
    #[allow(unused_imports)]
    use mina::prelude::*;
    let c = |cycle: f32, delay: f32, rep: Rep, rev: bool| Cfg { cycle, delay, rep, rev };
    vec![
        ("2s after 500ms 1x reverse", mina::timeline!(S1 2s after 500ms 1x reverse from { x: 0.0 } to { x: 1.0 }), c(2.0, 0.5, Rep::Times(1), true)),
        ("500ms after 1s", mina::timeline!(S1 500ms after 1s from { x: 0.0 } to { x: 1.0 }), c(0.5, 1.0, Rep::None, false)),
        ("after 250ms for 4s infinite", mina::timeline!(S1 after 250ms for 4s infinite from { x: 0.0 } to { x: 1.0 }), c(4.0, 0.25, Rep::Infinite, false)),
        ("3x after 2s 250ms", mina::timeline!(S1 3x after 2s 250ms from { x: 0.0 } to { x: 1.0 }), c(0.25, 2.0, Rep::Times(3), false)),
        ("after 1000ms reverse 0.5s", mina::timeline!(S1 from { x: 0.0 } after 1000ms reverse 0.5s to { x: 1.0 }), c(0.5, 1.0, Rep::None, true)),
        ("1s after 1s 2x", mina::timeline!(S1 1s after 1s 2x from { x: 0.0 } to { x: 1.0 }), c(1.0, 1.0, Rep::Times(2), false)),
        ("125ms after 125ms infinite reverse", mina::timeline!(S1 125ms after 125ms infinite reverse from { x: 0.0 } to { x: 1.0 }), c(0.125, 0.125, Rep::Infinite, true)),
        ("after 0.5s 2000ms", mina::timeline!(S1 to { x: 1.0 } after 0.5s from { x: 0.0 } 2000ms), c(2.0, 0.5, Rep::None, false)),
    ]
}

fn boundaries(cfg: &Cfg) -> Vec<f32> {
    let mut b = vec![0.0f32, -0.0, cfg.delay];
    let n = cfg.rep.cycles().unwrap_or(6).min(6);
    for j in 0..=(2 * n) {
        b.push(cfg.delay + j as f32 * cfg.cycle / 2.0);
    }
    if let Some(n) = cfg.rep.cycles() {
        b.push(cfg.delay + cfg.cycle * n as f32);
        b.push((cfg.delay as f64 + cfg.cycle as f64 * n as f64) as f32);
    }
    b
}

const STREAM_SWEEP: u64 = 1;
const STREAM_GRID: u64 = 2;
const STREAM_META: u64 = 3;
const STREAM_ODD: u64 = 4;
const STREAM_MACRO: u64 = 5;

pub fn run(run: &mut Run) {
    let thorough = run.thorough();
    run.rule = "time axis sweep per timing configuration: thorough = every f32 bit pattern (non-finite skipped) for each \
        fixed configuration, quick = stride-61 sweep of all bit patterns plus every float within ±4096 ulp of each \
        phase boundary; random general-regime configurations swept at a coarser stride; plus a dyadic exact grid \
        (bit-exact position, loop-state flags, periodicity and mirror relations) and metadata accessors; oracle \
        M-scale in f64 with the boundary band; non-trivial = active phase outside a band; distinct = \
        (configuration, phase/loop class) pairs observed"
        .into();
    run.assumptions = vec![
        "IEEE f32/f64 arithmetic of the host".into(),
        "inside a band of ±ulp around a cycle wrap / turning point / end instant either side is accepted (counted in inconclusive_band)".into(),
    ];
    run.min_sigs = 12;
    let cfgs = configs(thorough, run.seed);
    let n_fixed = if thorough { cfgs.len() - 120 } else { 3 };
    let rc = run.replay_case();
    run.extra.push(("configurations".into(), J::A(cfgs.iter().map(|c| c.json()).collect())));
    let ended_obs = std::sync::Mutex::new(vec![(f32::INFINITY, f32::NEG_INFINITY); cfgs.len()]);
    // ---- sweep
    run.parallel(|w, nw, acc| {
        for (ci, cfg) in cfgs.iter().enumerate() {
            if let Some((s, i)) = rc {
                if s != STREAM_SWEEP || i != ci as u64 {
                    continue;
                }
            }
            let ts = cfg.ts();
            let probe = cfg.probe();
            let mut first_ended = f32::INFINITY;
            let mut last_not_ended = f32::NEG_INFINITY;
            let stride: u64 = if ci < n_fixed { if thorough { 1 } else { 61 } } else if thorough { 257 } else { 4099 };
            // each worker takes a contiguous block of the bit space, walked with the stride
            let span = (1u64 << 32) / nw as u64;
            let (lo, hi) = (span * w as u64, if w == nw - 1 { 1u64 << 32 } else { span * (w as u64 + 1) });
            let mut b = lo + (stride - lo % stride) % stride;
            let mut n = 0u64;
            while b < hi {
                let t = f32::from_bits(b as u32);
                if t.is_finite() {
                    n += 1;
                    let use_probe = n % 64 == 0;
                    let cl = check_one(cfg, ci, &ts, if use_probe { Some(&probe) } else { None }, t, acc, STREAM_SWEEP, &mut first_ended, &mut last_not_ended);
                    if n % 1024 == 0 || cl.len() > 11 {
                        acc.sig(format!("cfg{ci}|{cl}"));
                    }
                } else {
                    acc.count("non_finite_bit_patterns_skipped", 1);
                }
                b += stride;
            }
            // neighbourhoods of every phase boundary: all floats within ±4096 ulp
            if w == 0 {
                for bt in boundaries(cfg) {
                    let kb = bt.to_bits() as i64;
                    for off in -4096i64..=4096 {
                        // walk in sign-magnitude order around the boundary
                        let t = if bt >= 0.0 {
                            let k = kb + off;
                            if k < 0 { -f32::from_bits((-k) as u32) } else { f32::from_bits(k as u32) }
                        } else {
                            f32::from_bits((kb - off).max(0x8000_0000u32 as i64) as u32)
                        };
                        if !t.is_finite() {
                            continue;
                        }
                        let cl = check_one(cfg, ci, &ts, Some(&probe), t, acc, STREAM_SWEEP, &mut first_ended, &mut last_not_ended);
                        acc.sig(format!("cfg{ci}|{cl}|nb"));
                    }
                }
            }
            let mut g = ended_obs.lock().unwrap();
            g[ci].0 = g[ci].0.min(first_ended);
            g[ci].1 = g[ci].1.max(last_not_ended);
        }
    });
    // ---- metadata + agreement of `duration` with the first Ended time seen by the sweep
    let obs = ended_obs.into_inner().unwrap();
    for (ci, cfg) in cfgs.iter().enumerate() {
        if rc.is_some() && rc != Some((STREAM_META, ci as u64)) {
            continue;
        }
        let [tl, _] = cfg.probe();
        let case = |what: &str| case_json(STREAM_META, ci as u64, vec![("config", cfg.json()), ("clause", J::s(what))]);
        run.acc.eval();
        let want_total = cfg.delay as f64 + cfg.total();
        let dur = tl.duration();
        if !same_f32(tl.delay(), cfg.delay)
            || tl.cycle_duration().map(|c| c.to_bits()) != Some(cfg.cycle.to_bits())
            || Rep::from_mina(tl.repeat()) != cfg.rep
        {
            run.acc.violation("c03:meta", format!("delay/cycle/repeat accessors ({}, {:?}, {:?}) differ from configured {:?}", tl.delay(), tl.cycle_duration(), tl.repeat(), cfg), case("accessors"));
        }
        // the same four accessors through the single-component `MergedTimeline` wrapper (the form a timeline takes
        // inside a state animator) must report what the timeline itself reports
        {
            let mg = cfg.merged_probe();
            run.acc.eval();
            if !same_f32(mg.delay(), tl.delay())
                || mg.cycle_duration().map(|c| c.to_bits()) != tl.cycle_duration().map(|c| c.to_bits())
                || mg.repeat() != tl.repeat()
                || mg.duration().to_bits() != tl.duration().to_bits()
            {
                run.acc.violation(
                    "c03:meta-merged",
                    format!("wrapped in a MergedTimeline the accessors report delay {} cycle {:?} repeat {:?} duration {}; the timeline itself reports {} {:?} {:?} {}; {:?}",
                        mg.delay(), mg.cycle_duration(), mg.repeat(), mg.duration(), tl.delay(), tl.cycle_duration(), tl.repeat(), tl.duration(), cfg),
                    case("accessors-through-merged-wrapper"),
                );
            }
        }
        // "delay + cycle x (repeats+1)" to float rounding: within one ulp of the real total (what a careful
        // evaluation in higher precision gives), or exactly what the formula gives in f32 arithmetic with every
        // operation correctly rounded (count, product, sum — together up to 2 ulp once the count exceeds 2^24 —, or
        // product and sum fused). A count that is rounded twice (`n as f32 + 1.0`) is neither.
        let dur_ok = if want_total.is_infinite() {
            dur == f32::INFINITY
        } else {
            let count = cfg.rep.cycles().unwrap() as f32;
            let formula = [cfg.delay + cfg.cycle * count, cfg.cycle.mul_add(count, cfg.delay)];
            dur.is_finite() && ((dur as f64 - want_total).abs() <= 1.0 * ulp32(want_total as f32) as f64 + 1e-30 || formula.iter().any(|f| f.to_bits() == dur.to_bits()))
        };
        if !dur_ok {
            run.acc.violation("c03:duration", format!("duration() = {dur} but delay + cycle x (repeats+1) = {want_total} for {:?}", cfg), case("duration"));
        }
        // the reported total must agree with the behaviour: just after it the timeline is over, just
        // before it (and after the delay) it is not
        if dur.is_finite() && want_total.is_finite() {
            let ts = cfg.ts();
            let u = ulp32(dur);
            let after = dur + 3.0 * u;
            let before = dur - 3.0 * u;
            run.acc.evals(2);
            if after.is_finite() && observe(&ts, after).phase != Phase::Ended {
                run.acc.violation("c03:duration-vs-behaviour", format!("duration() = {dur} but the timeline is still {:?} at t = {after} for {:?}", observe(&ts, after).phase, cfg), case("duration agrees with behaviour (late)"));
            }
            if before > cfg.delay + 3.0 * u && before > 0.0 && observe(&ts, before).phase == Phase::Ended {
                run.acc.violation("c03:duration-vs-behaviour", format!("duration() = {dur} but the timeline has already Ended at t = {before} for {:?}", cfg), case("duration agrees with behaviour (early)"));
            }
        }
        // behaviour agrees with the reported duration
        let (first_ended, last_not_ended) = obs[ci];
        if rc.is_none() {
            if want_total.is_infinite() {
                if first_ended.is_finite() {
                    run.acc.violation("c03:inf-ended", format!("infinite timeline reported Ended at t={first_ended} for {:?}", cfg), case("never-ends"));
                }
            } else if first_ended.is_finite() {
                let slack = 4.0 * ulp32(dur.max(first_ended)) as f64 * if ci < n_fixed && thorough { 1.0 } else { 1e9 };
                if (first_ended as f64) < dur as f64 - slack.min(f64::MAX) && ci < n_fixed && thorough {
                    run.acc.violation("c03:ended-early", format!("first Ended at t={first_ended} before duration {dur} for {:?}", cfg), case("ended-vs-duration"));
                }
                if (last_not_ended as f64) > dur as f64 + 4.0 * ulp32(dur) as f64 + ulp32(last_not_ended) as f64 {
                    run.acc.violation("c03:ended-late", format!("still not Ended at t={last_not_ended} after duration {dur} for {:?}", cfg), case("ended-vs-duration"));
                }
            }
        }
    }
    // ---- timing written in the macro grammar
    if rc.is_none() || rc.map(|(s, _)| s) == Some(STREAM_MACRO) {
        for (si, (name, tl, cfg)) in macro_sentences().into_iter().enumerate() {
            let case = |what: &str| case_json(STREAM_MACRO, si as u64, vec![("sentence", J::s(name)), ("config", cfg.json()), ("clause", J::s(what))]);
            run.acc.eval();
            let want_total = cfg.delay as f64 + cfg.total();
            let dur_ok = if want_total.is_infinite() { tl.duration() == f32::INFINITY } else { tl.duration() as f64 == want_total };
            if !same_f32(tl.delay(), cfg.delay) || tl.cycle_duration().map(|c| c.to_bits()) != Some(cfg.cycle.to_bits()) || Rep::from_mina(tl.repeat()) != cfg.rep || !dur_ok {
                run.acc.violation(
                    "c03:macro-meta",
                    format!("timeline!({name} ...) reports delay {} cycle {:?} repeat {:?} duration {}; the sentence configures delay {} cycle {} repeat {:?} total {want_total}", tl.delay(), tl.cycle_duration(), tl.repeat(), tl.duration(), cfg.delay, cfg.cycle, cfg.rep),
                    case("accessors equal what the sentence configures"),
                );
                continue;
            }
            for j in 0..=(64.0 * (want_total.min(12.0) + 1.0)) as u32 {
                let t = j as f32 / 64.0 - 0.25;
                let m = mscale(cfg.cycle as f64, cfg.delay as f64, cfg.rep, cfg.rev, t as f64);
                let mut v = S1 { x: 0.25 };
                tl.update(&mut v, t);
                run.acc.eval();
                if v.x as f64 != m.p {
                    run.acc.violation("c03:macro-route", format!("timeline!({name} ...): linear probe gives {} at t={t}, the configured timing means position {}", v.x, m.p), case("behaviour agrees with the configured timing"));
                    break;
                }
            }
            run.acc.sig(format!("macro-sentence|{name}"));
        }
    }
    // ---- exact dyadic grid: bit-exact positions, flags and relations
    let grid_cfgs: Vec<Cfg> = {
        let mut v = Vec::new();
        for cycle in [0.25f32, 0.5, 1.0, 2.0, 4.0] {
            for delay in [0.0f32, 0.25, 1.0, 3.0, -0.5] {
                for rep in [Rep::None, Rep::Times(0), Rep::Times(1), Rep::Times(3), Rep::Times(64), Rep::Infinite] {
                    for rev in [false, true] {
                        v.push(Cfg { cycle, delay, rep, rev });
                    }
                }
            }
        }
        v
    };
    let sub = if thorough { 4096u32 } else { 256 };
    run.extra.push(("exact_grid_configurations".into(), J::U(grid_cfgs.len() as u64)));
    run.parallel(|w, nw, acc| {
        for ci in my_cases(rc, STREAM_GRID, grid_cfgs.len() as u64, w, nw) {
            let cfg = &grid_cfgs[ci as usize];
            let ts = cfg.ts();
            let probe = cfg.probe();
            let merged = cfg.merged_probe();
            let probe3 = cfg.probe3();
            let cycles = cfg.rep.cycles().unwrap_or(70).min(70) as u32;
            let jmax = (cycles + 2) * (sub as f32 * cfg.cycle) as u32 + (4.0 * sub as f32) as u32;
            let case = |t: f32, what: &str| case_json(STREAM_GRID, ci, vec![("config", cfg.json()), ("t", J::F(t as f64)), ("clause", J::s(what))]);
            for j in 0..=jmax {
                let t = j as f32 / sub as f32 - 1.0;
                let o = observe(&ts, t);
                let m = mscale(cfg.cycle as f64, cfg.delay as f64, cfg.rep, cfg.rev, t as f64);
                acc.eval();
                let okk = o.phase == m.phase
                    && o.pos as f64 == m.p
                    && (o.phase != Phase::Active || (o.repeating == m.repeating && o.reversing == m.reverse_pass));
                if !okk {
                    acc.violation(
                        format!("c03:grid:{}", m.class()),
                        format!("exact grid: t={t} for {:?}: observed {:?} pos {} (rep {}, rev {}), model {:?} pos {} (rep {}, rev {})",
                            cfg, o.phase, o.pos, o.repeating, o.reversing, m.phase, m.p, m.repeating, m.reverse_pass),
                        case(t, "exact-grid"),
                    );
                    continue;
                }
                acc.sig(format!("grid|{}|{}|{}", cfg.rep.class(), cfg.rev, m.class()));
                // relations between real executions
                if o.phase == Phase::Active && m.rho > 0.0 && m.rho < 1.0 {
                    // periodicity: same position one cycle later while still inside the active span
                    let t2 = t + cfg.cycle;
                    let within = match cfg.rep.cycles() {
                        Some(n) => ((t2 - cfg.delay) as f64) < cfg.cycle as f64 * n as f64,
                        None => true,
                    };
                    if within {
                        let o2 = observe(&ts, t2);
                        acc.eval();
                        if o2.phase != Phase::Active || o2.pos != o.pos {
                            acc.violation("c03:periodic", format!("pos(t+cycle) = {} ({:?}) differs from pos(t) = {} at t={t} for {:?}", o2.pos, o2.phase, o.pos, cfg), case(t, "periodicity"));
                        }
                    }
                    if cfg.rev {
                        // mirror symmetry around the turning point of the same cycle
                        let start = cfg.delay + cfg.cycle * m.k as f32;
                        let tm = start + cfg.cycle - (t - start);
                        let om = observe(&ts, tm);
                        acc.eval();
                        if om.pos != o.pos && m.rho != 0.5 {
                            acc.violation("c03:mirror", format!("pos at mirrored time {tm} = {} differs from pos({t}) = {} for {:?}", om.pos, o.pos, cfg), case(t, "mirror"));
                        }
                    }
                }
                if j % 16 == 0 {
                    {
                        let mut v = S1 { x: 0.375 };
                        probe3.update(&mut v, t);
                        acc.eval();
                        let want = Cfg::probe3_want(m.p);
                        if (v.x as f64 - want).abs() > 1e-6 {
                            acc.violation(
                                format!("c03:grid-route-3kf:{}", m.class()),
                                format!("update of the three-keyframe probe (0 -> 1 -> 0.25) gives {} at t={t} ({}), position {} means {want} for {:?}", v.x, m.class(), m.p, cfg),
                                case(t, "update-route-three-keyframes"),
                            );
                        }
                    }
                    {
                        let mut v = S1 { x: 0.25 };
                        merged.update(&mut v, t);
                        acc.eval();
                        if v.x as f64 != m.p {
                            acc.violation(
                                "c03:grid-route-merged",
                                format!("update of the linear probe wrapped in a MergedTimeline gives {} at t={t}, model position {} for {:?}", v.x, m.p, cfg),
                                case(t, "update-route"),
                            );
                        }
                    }
                    for (pi, probe) in probe.iter().enumerate() {
                        let mut v = S1 { x: 0.25 };
                        probe.update(&mut v, t);
                        acc.eval();
                        if v.x as f64 != m.p {
                            acc.violation(
                                "c03:grid-route",
                                format!("update of linear probe #{pi} gives {} at t={t}, model position {} for {:?}", v.x, m.p, cfg),
                                case(t, "update-route"),
                            );
                        }
                    }
                }
            }
            acc.sample(2, || case(1.0, "exact-grid sample: all t=j/sub-1 compared bit-exactly"));
        }
    });
    // ---- exact instants of cycles that are not powers of two. For a cycle c with few significant bits and a
    // fraction f = j/64 the time t = delay + c x (k + f) is an f32, t - delay and its remainder c x f are exact, and
    // the correctly rounded quotient (c x f) / c is f itself: the position is known exactly although the cycle is
    // off the dyadic grid (every cycle boundary k x c, turning point and end instant among them).
    let odd_cfgs: Vec<Cfg> = {
        let mut cycles: Vec<f32> = (1..=100).map(|c| c as f32).collect();
        cycles.extend_from_slice(&[0.75, 1.5, 12.5, 0.375, 1000.0, 0.046875, 250.0]);
        let mut v = Vec::new();
        for cycle in cycles {
            for delay in [0.0f32, 0.5, 3.0, -1.0] {
                for rep in [Rep::None, Rep::Times(0), Rep::Times(1), Rep::Times(3), Rep::Infinite] {
                    for rev in [false, true] {
                        v.push(Cfg { cycle, delay, rep, rev });
                    }
                }
            }
        }
        v
    };
    run.extra.push(("exact_non_dyadic_configurations".into(), J::U(odd_cfgs.len() as u64)));
    run.parallel(|w, nw, acc| {
        for ci in my_cases(rc, STREAM_ODD, odd_cfgs.len() as u64, w, nw) {
            let cfg = &odd_cfgs[ci as usize];
            let ts = cfg.ts();
            let merged = cfg.merged_probe();
            let probe3 = cfg.probe3();
            let kmax = cfg.rep.cycles().unwrap_or(6).min(6) + 1;
            let case = |t: f32, what: &str| case_json(STREAM_ODD, ci, vec![("config", cfg.json()), ("t", J::F(t as f64)), ("clause", J::s(what))]);
            let jstep = if thorough { 1 } else { 4 };
            for k in 0..=kmax {
                for j in (0..64u32).step_by(jstep) {
                    let t64 = cfg.delay as f64 + cfg.cycle as f64 * (k as f64 + j as f64 / 64.0);
                    let t = t64 as f32;
                    let e = t64 - cfg.delay as f64;
                    let r = cfg.cycle as f64 * (j as f64 / 64.0);
                    if t as f64 != t64 || (e as f32) as f64 != e || (r as f32) as f64 != r {
                        continue; // not an exact instant in f32
                    }
                    let o = observe(&ts, t);
                    let m = mscale(cfg.cycle as f64, cfg.delay as f64, cfg.rep, cfg.rev, t64);
                    acc.eval();
                    let okk = o.phase == m.phase
                        && o.pos as f64 == m.p
                        && (o.phase != Phase::Active || (o.repeating == m.repeating && o.reversing == m.reverse_pass));
                    if !okk {
                        acc.violation(
                            format!("c03:odd-grid:{}", m.class()),
                            format!("exact instant t={t} (cycle {} of a cycle that is not a power of two, fraction {}/64) for {:?}: observed {:?} pos {} (rep {}, rev {}), model {:?} pos {} (rep {}, rev {})",
                                k, j, cfg, o.phase, o.pos, o.repeating, o.reversing, m.phase, m.p, m.repeating, m.reverse_pass),
                            case(t, "exact-instant-non-dyadic-cycle"),
                        );
                        continue;
                    }
                    acc.sig(format!("odd|{}|{}|{}", cfg.rep.class(), cfg.rev, m.class()));
                    if j % 16 == 0 {
                        let mut v3 = S1 { x: 0.375 };
                        probe3.update(&mut v3, t);
                        acc.eval();
                        let want = Cfg::probe3_want(m.p);
                        if (v3.x as f64 - want).abs() > 1e-6 {
                            acc.violation(
                                format!("c03:odd-grid-route-3kf:{}", m.class()),
                                format!("update of the three-keyframe probe (0 -> 1 -> 0.25) gives {} at t={t} ({}), position {} means {want} for {:?}", v3.x, m.class(), m.p, cfg),
                                case(t, "update-route-three-keyframes"),
                            );
                        }
                        let mut v = S1 { x: 0.25 };
                        merged.update(&mut v, t);
                        acc.eval();
                        if v.x as f64 != m.p {
                            acc.violation(
                                "c03:odd-grid-route",
                                format!("update of the linear probe gives {} at the exact instant t={t}, model position {} for {:?}", v.x, m.p, cfg),
                                case(t, "update-route-non-dyadic-cycle"),
                            );
                        }
                    }
                }
            }
        }
    });
    if thorough {
        run.exhaustive = Some(true);
    }
}
