//! C02 — keyframe, start and end values are reached exactly and then held (exact regime only).

use crate::model::{agrees_exact, frames, mscale_spec, Phase};
use crate::shapes::Shape;
use crate::spec::*;
use crate::util::*;
use crate::with_shape;
use mina::Timeline;

const STREAM: u64 = 1;
const STREAM_OFFGRID: u64 = 2;

pub fn run(run: &mut Run) {
    run.rule = "random timelines in the dyadic exact regime (keyframe positions k/64, power-of-two cycles, dyadic delays, \
        repeat None/Times(0..64)/Infinite, reverse, optional start_with) evaluated at t = delay + cycle*(k+p) for every \
        keyframe position p of every property and every cycle k (all k for Times(n), k in {0,1,2,3,2^10,2^16} for \
        infinite), the mirrored instants of reverse passes, the end of every forward pass, times <= delay and times >= \
        total (total, +ulp, 2*total, 1e9, f32::MAX); analytic oracle: the keyframe's / 0 % / 100 % / terminal value \
        (integers exact, floats <= 4 ulp, terminal values bit-identical); non-trivial = a keyframe hit or boundary \
        whose value differs from the neighbouring keyframes; distinct = (repeat kind, reverse, cycle class, boundary \
        kind, property type, position class)"
        .into();
    run.assumptions = vec!["times and positions are chosen so every f32 intermediate of the implementation is exact".into()];
    run.min_sigs = 60;
    let n: u64 = if run.thorough() { 1_500_000 } else { 60_000 };
    let seed = run.seed;
    let rc = run.replay_case();
    let verbose = rc.is_some();
    run.parallel(|w, nw, acc| {
        for i in my_cases(rc, STREAM, n, w, nw) {
            guarded(acc, "c02", STREAM, i, |acc| {
                let mut r = Rng::derive(seed, STREAM, i);
                let shape = r.usize(crate::shapes::N_SHAPES);
                with_shape!(shape, case(&mut r, acc, i, verbose));
            });
        }
    });
    // second stream: timing off the dyadic grid, judged only where no rounding can matter — well after the end (the
    // terminal value, constant) and well inside the delay (the 0 % value)
    let n2: u64 = if run.thorough() { 200_000 } else { 8_000 };
    run.parallel(|w, nw, acc| {
        for i in my_cases(rc, STREAM_OFFGRID, n2, w, nw) {
            guarded(acc, "c02", STREAM_OFFGRID, i, |acc| {
                let mut r = Rng::derive(seed, STREAM_OFFGRID, i);
                let shape = r.usize(crate::shapes::N_SHAPES);
                with_shape!(shape, offgrid_case(&mut r, acc, i));
            });
        }
    });
}

/// `Times(n)` / `None` timelines with cycles such as 0.1 s or 0.7 s (whose f32 total is neither exact nor a multiple of
/// the cycle): at `total + 0.05 s`, `+1 s`, `+60 s`, `1e9 s` and `f32::MAX` the terminal value (100 %, the original 0 %
/// when reversing) must be shown and must not change; half-way into a positive delay the 0 % value must be shown.
fn offgrid_case<S: Shape>(r: &mut Rng, acc: &mut Acc, index: u64) {
    let kinds = &S::KINDS[..S::N_ANIM];
    let mut spec = gen_tl(r, kinds, &GenOpts { random_pos: true, min_kf: 1, shuffle: true, ..GenOpts::default() });
    spec.cycle = *r.pick(&[0.1f32, 0.3, 0.7, 0.15, 0.6, 1.1, 0.05]);
    spec.delay = *r.pick(&[0.0f32, 0.0, 0.5, 0.1, 0.3]);
    spec.repeat = *r.pick(&[Rep::None, Rep::Times(1), Rep::Times(2), Rep::Times(4), Rep::Times(5), Rep::Times(9)]);
    let tl = S::build_tl(&spec);
    let total = spec.total();
    let case = |t: f32, f: usize, what: &str| case_json(STREAM_OFFGRID, index, vec![("shape", J::s(S::NAME)), ("timeline", spec.json()), ("t", J::F(t as f64)), ("field", J::s(S::FIELDS[f])), ("clause", J::s(what))]);
    let mut terminal: Vec<Option<u64>> = vec![None; S::N_ANIM];
    let mut times: Vec<(f32, bool)> = [0.05f64, 1.0, 60.0].iter().map(|d| ((total + d) as f32, true)).collect();
    times.extend_from_slice(&[(1.0e9, true), (f32::MAX, true)]);
    if spec.delay > 0.0 {
        times.push((spec.delay * 0.5, false));
    }
    for (t, after) in times {
        let mut target = crate::checks::c08::fill_sentinels::<S>(r);
        tl.update(&mut target, t);
        for f in 0..S::N_ANIM {
            let fr = frames(&spec, f);
            if fr.is_empty() {
                continue;
            }
            let rest_first = !after || spec.reverse;
            let rest_pos = if rest_first { fr[0].pos } else { fr[fr.len() - 1].pos };
            let wants: Vec<f64> = fr.iter().filter(|x| x.pos == rest_pos).map(|x| x.val).collect();
            if wants.len() > 1 {
                acc.count("ambiguous_or_not_at_keyframe", 1);
                continue;
            }
            acc.eval();
            let (got, clause) = (target.get(f), if !after { "0%-until-delay" } else if spec.reverse { "terminal-original-0%" } else { "terminal-100%" });
            if !agrees_exact(S::KINDS[f], got, wants[0]) {
                acc.violation(
                    format!("c02:offgrid:{clause}"),
                    format!("field {} at t={t} (cycle {}, delay {}, {:?}, reverse {}; total {total}): observed {got}, expected {} ({clause})", S::FIELDS[f], spec.cycle, spec.delay, spec.repeat, spec.reverse, wants[0]),
                    case(t, f, clause),
                );
                return;
            }
            if after {
                let b = target.bits(f);
                match terminal[f] {
                    None => terminal[f] = Some(b),
                    Some(pb) if pb != b && !(got == 0.0 && target.get(f) == 0.0) => {
                        acc.violation("c02:offgrid:terminal-changes", format!("field {} changes after the end: bits {pb:#x} then {b:#x} at t={t}", S::FIELDS[f]), case(t, f, "terminal-constant"));
                        return;
                    }
                    _ => {}
                }
            }
        }
    }
    acc.sig(format!("offgrid|{}|rev={}|delay={}|c={}", spec.repeat.class(), spec.reverse, spec.delay > 0.0, spec.cycle));
}

fn case<S: Shape>(r: &mut Rng, acc: &mut Acc, index: u64, verbose: bool) {
    let kinds = &S::KINDS[..S::N_ANIM];
    let opts = GenOpts { random_pos: false, neg_delay: true, shuffle: true, ..GenOpts::default() };
    let mut spec = gen_tl(r, kinds, &opts);
    // positions k/64
    for k in spec.kfs.iter_mut() {
        if r.chance(1, 3) {
            k.pos = r.below(65) as f32 / 64.0;
        }
    }
    // one case in five: arbitrary f32 positions (0.1, 0.2, 0.637...) under a zero delay — the cycles of the exact
    // regime are powers of two, so t = cycle x p (x 1/2 when reversing) still maps onto the keyframe exactly in the
    // first cycle; instants that do not map exactly are recognised below and not judged
    if r.chance(1, 5) {
        spec.delay = 0.0;
        for k in spec.kfs.iter_mut() {
            k.pos = match r.below(4) {
                0 => *r.pick(&[0.1f32, 0.2, 0.3, 0.7, 0.9, 0.05]),
                _ => r.unit() as f32,
            };
        }
    }
    spec.kfs.sort_by(|a, b| a.pos.total_cmp(&b.pos));
    if r.chance(1, 4) {
        spec.repeat = Rep::Times(*r.pick(&[2u32, 5, 17, 64]));
    }
    let subst: Option<Vec<f64>> = if r.chance(1, 2) { Some(S::KINDS.iter().map(|k| gen_value(r, *k)).collect()) } else { None };
    // one quarter of the cases: a merged timeline of two components with disjoint property sets and
    // independent timing (the statement quantifies over all timelines); `owner[f]` = component of field f
    let merged = S::N_ANIM >= 2 && r.chance(1, 4);
    // one plain timeline in eight leaves some of the timing setters (duration, delay, repeat) out: the timeline is
    // then judged against what a bare builder *reports* for them — no particular default is demanded, only that it
    // is a valid configuration (a positive cycle) and that keyframes are reached at the instants it implies
    let mut omit: u8 = 0;
    if !merged && r.chance(1, 8) {
        let m = 1 + r.below(7) as u8;
        let bare = crate::shapes::with_omitted(15, || S::build_tl(&TlSpec::plain(1.0)));
        let (d0, c0, r0) = (bare.delay(), bare.cycle_duration(), bare.repeat());
        match c0 {
            Some(c) if c > 0.0 && c.is_finite() && d0.is_finite() => {
                let probe = TlSpec::plain(c);
                if probe.dyadic_cycle() && (d0 * 512.0).fract() == 0.0 && d0.abs() <= 16.0 {
                    omit = m;
                    if m & 1 != 0 { spec.cycle = c; }
                    if m & 2 != 0 { spec.delay = d0; }
                    if m & 4 != 0 { spec.repeat = Rep::from_mina(r0); }
                }
            }
            _ => {
                acc.eval();
                acc.violation(
                    "c02:unconfigured-builder",
                    format!("a timeline built without duration/delay/repeat reports cycle {:?} and delay {d0}: no instant can reach a keyframe position of a cycle that is not positive", c0),
                    case_json(STREAM, index, vec![("shape", J::s(S::NAME)), ("clause", J::s("defaults form a valid configuration"))]),
                );
                return;
            }
        }
    }
    let mut specs = vec![spec.clone()];
    if merged {
        let mut other = gen_tl(r, kinds, &opts);
        other.kfs.sort_by(|a, b| a.pos.total_cmp(&b.pos));
        for f in 0..S::N_ANIM {
            for k in specs[0].kfs.iter_mut() {
                if f % 2 == 1 { k.vals[f] = None; }
            }
            for k in other.kfs.iter_mut() {
                if f % 2 == 0 { k.vals[f] = None; }
            }
        }
        specs.push(other);
    }
    let owner = |f: usize| if merged { f % 2 } else { 0 };
    let single = if merged { None } else { Some(crate::shapes::with_omitted(omit, || S::build_tl(&specs[0]))) };
    let multi = if merged { Some(crate::shapes::build_merged::<S>(&specs)) } else { None };
    let (mut single, mut multi) = (single, multi);
    if let Some(v) = &subst {
        // the substitution in force is the latest one: in a third of the cases an earlier, different one (and an
        // evaluation under it) comes first, as when a state animator enters the same state a second time
        if index % 3 == 1 {
            let other: Vec<f64> = v.iter().map(|x| if *x == 0.0 { 7.0 } else { (x * 0.5).trunc() - 3.0 }).collect();
            let mut scratch = S::default();
            if let Some(t) = single.as_mut() { t.start_with(&S::from_vals(&other)); t.update(&mut scratch, 0.03125); }
            if let Some(t) = multi.as_mut() { t.start_with(&S::from_vals(&other)); t.update(&mut scratch, 0.03125); }
        }
        if let Some(t) = single.as_mut() { t.start_with(&S::from_vals(v)) }
        if let Some(t) = multi.as_mut() { t.start_with(&S::from_vals(v)) }
    }
    let mut times: Vec<(f32, &'static str)> = Vec::new();
    for spec in &specs {
    let (c, d) = (spec.cycle, spec.delay);
    let ks: Vec<u32> = match spec.repeat {
        Rep::None | Rep::Times(0) => vec![0],
        Rep::Times(n) => (0..=n).collect(),
        Rep::Infinite => vec![0, 1, 2, 3, 1 << 10, 1 << 16],
    };
    // all positions of interest: every keyframe position + 0 and 1
    let mut ps: Vec<f32> = spec.kfs.iter().map(|k| k.pos).collect();
    ps.push(0.0);
    ps.push(1.0);
    ps.sort_by(|a, b| a.total_cmp(b));
    ps.dedup();
    // (time, label)
    times.extend_from_slice(&[(-1.0, "before"), (0.0, "before"), (-0.0, "before"), (next_down(d), "before"), (d, "at-delay")]);
    for &k in &ks {
        for &p in &ps {
            if spec.reverse {
                times.push((d + c * (k as f32 + p / 2.0), "kf-fwd"));
                times.push((d + c * (k as f32 + 1.0 - p / 2.0), "kf-rev"));
            } else {
                times.push((d + c * (k as f32 + p), "kf-fwd"));
            }
        }
        times.push((d + c * (k as f32 + if spec.reverse { 0.5 } else { 1.0 }), "end-of-forward-pass"));
        times.push((d + c * (k as f32 + 1.0), "end-of-cycle"));
    }
    let total = spec.total();
    if total.is_finite() {
        let tt = total as f32;
        for t in [tt, next_up(tt), tt * 2.0 + 1.0, 1.0e9, f32::MAX] {
            times.push((t, "after-end"));
        }
    }
    }
    let case = |t: f32, f: usize, clause: &str| {
        case_json(STREAM, index, vec![
            ("shape", J::s(S::NAME)), ("timeline", J::A(specs.iter().map(|s| s.json()).collect())), ("merged", J::B(merged)), ("omitted_timing_setters_mask", J::U(omit as u64)),
            ("start_with", subst.as_ref().map(|v| J::A(v.iter().map(|x| J::F(*x)).collect())).unwrap_or(J::Null)),
            ("t", J::F(t as f64)), ("t_bits", J::U(t.to_bits() as u64)), ("field", J::s(S::FIELDS[f])), ("clause", J::s(clause)),
        ])
    };
    let frs: Vec<_> = (0..S::N_ANIM).map(|f| frames(&specs[owner(f)], f)).collect();
    let mut terminal: Vec<Option<u64>> = vec![None; S::N_ANIM];
    let mut sampled = false;
    for (t, label) in times {
        if !t.is_finite() {
            continue;
        }
        let mut target = S::default();
        for i in 0..S::n() {
            target.set(i, 33.0);
        }
        match (&single, &multi) {
            (Some(tl), _) => tl.update(&mut target, t),
            (_, Some(tl)) => tl.update(&mut target, t),
            _ => unreachable!(),
        }
        for f in 0..S::N_ANIM {
            let spec = &specs[owner(f)];
            let m = mscale_spec(spec, t as f64);
            let total = spec.total();
            let fr = &frs[f];
            if fr.is_empty() {
                continue;
            }
            if !spec.exact_at(t) {
                acc.count("skipped_inexact_instant_of_non_dyadic_cycle", 1);
                continue;
            }
            if m.phase == Phase::Active && t >= 1.0e8 {
                // an "after the end" probe time of another merged component: far outside the exact
                // regime of this (still running) component
                continue;
            }
            let kind = S::KINDS[f];
            let got = target.get(f);
            // which frame(s) sit exactly at the model position?
            let at: Vec<&crate::model::Frame> = fr.iter().filter(|x| x.pos == m.p).collect();
            let first_amb = fr.iter().filter(|x| x.pos == fr[0].pos).count() > 1;
            let last_amb = fr.iter().filter(|x| x.pos == fr[fr.len() - 1].pos).count() > 1;
            let want: Option<(f64, &'static str)> = match m.phase {
                Phase::NotStarted => {
                    if first_amb { None } else { Some((subst.as_ref().map(|v| v[f]).unwrap_or(fr[0].val), "0%-until-delay")) }
                }
                Phase::Ended => {
                    if spec.reverse {
                        if first_amb { None } else { Some((fr[0].val, "terminal-original-0%")) }
                    } else if last_amb { None } else { Some((fr[fr.len() - 1].val, "terminal-100%")) }
                }
                Phase::Active => {
                    if at.len() == 1 {
                        let mut v = at[0].val;
                        let mut lab = "keyframe-hit";
                        if m.p == 0.0 && m.subst {
                            if let Some(s) = &subst {
                                v = s[f];
                                lab = "substituted-start";
                            }
                        }
                        if m.p == 1.0 {
                            lab = "100%-at-end-of-forward-pass";
                        }
                        Some((v, lab))
                    } else {
                        None
                    }
                }
            };
            let Some((want, clause)) = want else {
                acc.count("ambiguous_or_not_at_keyframe", 1);
                continue;
            };
            acc.eval();
            let ok = agrees_exact(kind, got, want);
            if verbose {
                println!("  t={t} [{label}] {} p={} field={} observed={got} want={want} ({clause}) {}", m.class(), m.p, S::FIELDS[f], if ok { "ok" } else { "MISMATCH" });
            }
            if !ok {
                acc.violation(
                    format!("c02:{clause}"),
                    format!("field {} at t={t} ({label}, {} position {}): observed {got}, expected {want} ({clause})", S::FIELDS[f], m.class(), m.p),
                    case(t, f, clause),
                );
                continue;
            }
            // terminal values bit-identical across all t >= total
            if m.phase == Phase::Ended || (total.is_finite() && t as f64 >= total) {
                let b = target.bits(f);
                match terminal[f] {
                    None => terminal[f] = Some(b),
                    Some(pb) => {
                        let same = pb == b || (got == 0.0 && kind == crate::shapes::Kind::F32);
                        if !same {
                            acc.violation("c02:terminal-changes", format!("field {} changes after the end: bits {pb:#x} then {b:#x} at t={t}", S::FIELDS[f]), case(t, f, "terminal-constant"));
                        }
                    }
                }
            }
            // non-trivial: the expected value differs from some other frame value of the property
            let nontrivial = fr.iter().any(|x| x.val != want);
            if nontrivial {
                let kc = if m.k == 0 { "k0" } else if m.k < 4 { "k1-3" } else { "k-large" };
                let pc = if m.p == 0.0 { "p0" } else if m.p == 1.0 { "p1" } else { "interior" };
                acc.sig(format!("{}|{}|{kc}|{clause}|{}|{pc}|{label}|merged={merged}", spec.repeat.class(), spec.reverse, if kind.is_int() { "int" } else { "float" }));
                if !sampled {
                    sampled = true;
                    acc.sample(3, || case(t, f, clause));
                }
            }
        }
    }
}
