use crate::util::Run;

pub mod anim;
pub mod c01;
pub mod c02;
pub mod c03;
pub mod c05;
pub mod c06;
pub mod c07;
pub mod c08;
pub mod c09;
pub mod c10;
pub mod c11;
pub mod c12;
pub mod c13;
pub mod c14;
pub mod c20;

pub fn dispatch(id: &str, run: &mut Run) -> bool {
    match id {
        "C01" => c01::run(run),
        "C02" => c02::run(run),
        "C03" => c03::run(run),
        "C04" => c05::run(run, c05::Mode::C04),
        "C05" => c05::run(run, c05::Mode::C05),
        "C06" => c06::run(run),
        "C07" => c07::run(run),
        "C08" => c08::run(run),
        "C09" => c09::run(run),
        "C10" => c10::run(run),
        "C11" => c11::run(run),
        "C12" => c12::run(run),
        "C13" => c13::run(run),
        "C14" => c14::run(run),
        "C20" => c20::run(run),
        _ => return false,
    }
    true
}
