use crate::util::Run;

pub mod c01;
pub mod c03;
pub mod c13;

pub fn dispatch(id: &str, run: &mut Run) -> bool {
    match id {
        "C01" => c01::run(run),
        "C03" => c03::run(run),
        "C13" => c13::run(run),
        _ => return false,
    }
    true
}
