use crate::util::Run;

pub mod c01;

pub fn dispatch(id: &str, run: &mut Run) -> bool {
    match id {
        "C01" => c01::run(run),
        _ => return false,
    }
    true
}
