//! C04 / C05 — state changes never make values jump; values follow the blend/pause/resume rules.
//!
//! One exploration engine (all histories to a bounded depth over a 10-operation alphabet on a pool
//! of configurations + random long histories with probe suffixes), two oracles:
//!  * C04 (model-free, relational): `current_values` bit-identical immediately before/after every
//!    `set_state`; a twin animator that skips every `set_state(current)` follows the identical
//!    trajectory.
//!  * C05 (M-anim): `current_state`, `current_values` (bit-exact), `is_ended` after every operation.

use crate::checks::anim::*;
use crate::shapes::*;
use crate::spec::*;
use crate::util::*;
use mina::StateAnimator;

const STREAM_EXH: u64 = 1;
const STREAM_RND: u64 = 2;

#[derive(Clone, Copy, PartialEq)]
pub enum Mode {
    C04,
    C05,
}

pub fn run(run: &mut Run, mode: Mode) {
    let thorough = run.thorough();
    let depth = if thorough { 7 } else { 5 };
    let which = if mode == Mode::C04 { "C04" } else { "C05" };
    run.rule = format!(
        "{which}: StateAnimatorBuilder-built animators over a 5-state enum; ALL histories of length {depth} over the alphabet \
        {{advance 0, 1/512, 1/8, 1, 7.5; set_state A..E}} on 5 hand-picked configurations (finite, delayed, Times(n), \
        reversing, infinite, merged, 100%-only, 0%-only, sparse, very slow (cycles of 2^14..2^18 s), un-animated states) plus seed-dependent random \
        configurations, and random histories of length 30-200 on random configurations (8 shapes incl. a remote proxy, all 29 easings) each \
        followed by probe suffixes set_state(s);advance(d) for every s; {}; non-trivial = a set_state to a different state \
        (C04) / an operation on an animated state (C05); distinct = (transition kind, source/target state kind, phase of \
        the source timeline, zero-length advance interleaved?, configuration)",
        if mode == Mode::C04 {
            "oracle: values bit-identical before/after every set_state, and identical trajectory to a twin animator that skips set_state(current)"
        } else {
            "oracle: M-anim compared after every operation (state, values bit-exact via twin timelines, is_ended); hook snapshot (time in state, pause record) logged as a diagnostic only"
        }
    );
    run.assumptions = vec![
        "M-anim delegates timeline evaluation to twin instances of the real timelines (purity, start_with and merging are C09/C10/C12)".into(),
        "initial and keyframe values are f32-representable (f64 properties are legitimately rounded to f32 precision on evaluation)".into(),
    ];
    run.min_sigs = 25;
    let seed = run.seed;
    let rc = run.replay_case();
    let verbose = rc.is_some();
    let mut pool = fixed_pool();
    let n_extra = if thorough { 4 } else { 2 };
    for i in 0..n_extra {
        let mut r = Rng::derive(seed, 777, i);
        pool.push(random_anim_opt::<S4>(&mut r, mode == Mode::C04));
    }
    let per_cfg = 10u64.pow(depth as u32);
    let n_exh = per_cfg * pool.len() as u64;
    run.extra.push(("exhaustive_depth".into(), J::U(depth as u64)));
    run.extra.push(("exhaustive_histories".into(), J::U(n_exh)));
    run.extra.push(("configurations_in_pool".into(), J::U(pool.len() as u64)));
    run.exhaustive = Some(false);
    let n_rnd: u64 = if thorough { 300_000 } else { 40_000 };
    run.parallel(|w, nw, acc| {
        for i in my_cases(rc, STREAM_EXH, n_exh, w, nw) {
            let cfg = (i / per_cfg) as usize;
            let ops = nth_history(i % per_cfg, depth);
            guarded(acc, which, STREAM_EXH, i, |acc| {
                check_history::<S4>(&pool[cfg], &ops, acc, mode, STREAM_EXH, i, &format!("pool{cfg}"), verbose);
            });
        }
        for i in my_cases(rc, STREAM_RND, n_rnd, w, nw) {
            guarded(acc, which, STREAM_RND, i, |acc| {
                let mut r = Rng::derive(seed, STREAM_RND, i);
                let shape = r.usize(crate::shapes::N_SHAPES);
                crate::with_shape!(shape, random_case(&mut r, acc, mode, i, verbose));
            });
        }
    });
}

fn random_case<S: Shape>(r: &mut Rng, acc: &mut Acc, mode: Mode, index: u64, verbose: bool) {
    let mut spec = random_anim_opt::<S>(r, mode == Mode::C04);
    if mode == Mode::C05 && r.chance(1, 4) {
        // initial values of wide properties that f32 cannot represent: the first evaluation legitimately rounds them
        // to f32 precision (C14), and "the timeline evaluated at the time spent in the state" is that rounded value —
        // also right after set_state, before any advance (C04 leaves such values out: there the rounding is a jump)
        let mut v: Vec<f64> = spec.initial_values.clone().unwrap_or_else(|| vec![0.0; S::n()]);
        for (i, k) in S::KINDS.iter().enumerate() {
            match k {
                Kind::F64 => v[i] = *r.pick(&[0.1f64, -1234.56789, 16777217.0, 1.0e-3]),
                Kind::I64 => v[i] = *r.pick(&[1099511627777.0f64, -16777217.0, 33554433.0]),
                Kind::U64 | Kind::U32 => v[i] = *r.pick(&[16777217.0f64, 33554435.0, 4000000001.0]),
                Kind::I32 => v[i] = *r.pick(&[16777217.0f64, -33554433.0]),
                _ => {}
            }
        }
        spec.initial_values = Some(v);
    }
    let len = 30 + r.usize(171);
    let grid = r.chance(2, 3);
    let ops = random_history(r, len, grid);
    check_history::<S>(&spec, &ops, acc, mode, STREAM_RND, index, "random", verbose);
    // probe suffixes expose latent internal state (stale pause record / start value) at the boundary
    let cut = r.usize(ops.len());
    for s in 0..5 {
        let mut probe = ops[..cut].to_vec();
        probe.push(Op::Set(s));
        probe.push(Op::Adv(*r.pick(&[0.125f32, 0.5, 1.0])));
        probe.push(Op::Set((s + 1 + r.usize(4)) % 5));
        probe.push(Op::Adv(0.25));
        probe.push(Op::Set(s));
        probe.push(Op::Adv(0.125));
        check_history::<S>(&spec, &probe[cut.saturating_sub(0)..].iter().fold(ops[..cut].to_vec(), |mut v, o| { v.push(*o); v }), acc, mode, STREAM_RND, index, "probe", verbose);
    }
}

fn phase_of<S: Shape>(m: &MAnim<S>) -> &'static str {
    match m.total() {
        None => "idle",
        Some(total) => {
            let t = m.t.as_secs_f32() as f64;
            if t == 0.0 { "at-start" } else if t >= total { "ended" } else { "running" }
        }
    }
}

pub fn check_history<S: Shape>(spec: &AnimSpec, ops: &[Op], acc: &mut Acc, mode: Mode, stream: u64, index: u64, cfg_name: &str, verbose: bool) {
    let mut real = build_anim::<S>(spec);
    let mut model = MAnim::<S>::new(spec);
    // C04 twin: skips set_state(current)
    let mut twin = if mode == Mode::C04 { Some(build_anim::<S>(spec)) } else { None };
    let case = |k: usize, what: &str| {
        case_json(stream, index, vec![
            ("shape", J::s(S::NAME)), ("configuration", J::s(cfg_name)), ("animator", spec.json()), ("ops", ops_json(ops)),
            ("failing_op_index", J::U(k as u64)), ("clause", J::s(what)),
        ])
    };
    let fmt = |v: &S| format!("{:?}", v.vals());
    let mut prev_zero_adv = false;
    // initial agreement
    if mode == Mode::C05 {
        acc.eval();
        if real.current_state().idx() != model.state || !same_all(real.current_values(), &model.values) {
            acc.violation("c05:initial", format!("initial state/values {:?}/{} differ from configured {}/{}", real.current_state(), fmt(real.current_values()), model.state, fmt(&model.values)), case(0, "initial"));
            return;
        }
    }
    for (k, op) in ops.iter().enumerate() {
        let before = real.current_values().clone();
        let src_phase = phase_of(&model);
        let src_state = model.state;
        apply_real::<S>(&mut real, *op);
        model.apply(*op);
        acc.eval();
        if let Op::Set(_) = op {
            acc.count(&format!("set_state_{}", model.last_transition), 1);
        } else {
            acc.count("advance", 1);
        }
        let after = real.current_values();
        match mode {
            Mode::C04 => {
                if let Op::Set(s) = op {
                    if !same_all(&before, after) {
                        let f = (0..S::n()).find(|f| !same_field(&before, after, *f)).unwrap();
                        acc.violation(
                            format!("c04:jump:{}", model.last_transition),
                            format!("set_state({}) changed field {} from {} to {} (history of {} ops, op #{k}; model transition kind: {})", ["A", "B", "C", "D", "E"][*s], S::FIELDS[f], before.get(f), after.get(f), ops.len(), model.last_transition),
                            case(k, "no-jump-on-set_state"),
                        );
                        return;
                    }
                    if *s != src_state {
                        acc.sig(format!("{cfg_name}|{}|src={}|{}|zero-adv-before={prev_zero_adv}", model.last_transition, src_phase, if spec.animated(*s) { "to-animated" } else { "to-idle" }));
                    }
                }
                // twin that never receives set_state(current)
                let tw = twin.as_mut().unwrap();
                let skip = matches!(op, Op::Set(s) if *s == src_state);
                if !skip {
                    apply_real::<S>(tw, *op);
                } else {
                    acc.sig(format!("{cfg_name}|same-state-noop|{src_phase}"));
                }
                if !same_all(tw.current_values(), after) || tw.current_state() != real.current_state() || tw.is_ended() != real.is_ended() {
                    acc.violation(
                        "c04:same-state-not-noop",
                        format!("after op #{k} the animator that received set_state(current) shows {} but a twin that did not shows {}", fmt(after), fmt(tw.current_values())),
                        case(k, "set_state(current) changes nothing"),
                    );
                    return;
                }
            }
            Mode::C05 => {
                let st_ok = real.current_state().idx() == model.state;
                // the values must be those of the timeline at an f32 time within float rounding of the time spent
                // in the state: normally the very time the model computes (bit-exact agreement), else one of the
                // neighbouring f32 times (`MAnim::candidate_times`); the model then continues from the observed values
                let mut val_ok = same_all(after, &model.values);
                if !val_ok && st_ok && model.huge() && model.total().map_or(false, |t| t.is_infinite()) {
                    // endless timeline after an astronomically long time: the phase within the cycle is undetermined
                    val_ok = (0..S::n()).all(|f| after.get(f).is_finite());
                    acc.count("values_not_judged_endless_timeline_after_2^40_s", 1);
                    model.values = after.clone();
                }
                if !val_ok && st_ok {
                    if model.candidate_times().iter().any(|t| same_all(after, &model.values_at(*t))) {
                        val_ok = true;
                        acc.count(if model.clock.exact { "values_matched_at_a_neighbouring_f32_time (exact clock)" } else { "values_matched_at_a_neighbouring_f32_time (inexact step sums)" }, 1);
                        model.values = after.clone();
                    }
                }
                let end_ok = real.is_ended() == model.is_ended() || model.ended_in_band();
                if verbose {
                    println!("  #{k} {:?}: state {:?} values {} ended {} | model state {} values {} ended {} t={:?} pause={:?} [{}]", op, real.current_state(), fmt(after), real.is_ended(), model.state, fmt(&model.values), model.is_ended(), model.t, model.pause, model.last_transition);
                }
                if !(st_ok && val_ok && end_ok) {
                    let what = if !st_ok { "current_state" } else if !val_ok { "current_values" } else { "is_ended" };
                    acc.violation(
                        format!("c05:{what}:{}", if matches!(op, Op::Set(_)) { model.last_transition } else { "advance" }),
                        format!(
                            "after op #{k} {:?} ({}): observed state {:?} values {} ended {}; model state {} values {} ended {} (time in state {:?}, pause {:?})",
                            op, model.last_transition, real.current_state(), fmt(after), real.is_ended(), ["A", "B", "C", "D", "E"][model.state], fmt(&model.values), model.is_ended(), model.t, model.pause
                        ),
                        case(k, what),
                    );
                    return;
                }
                // hook snapshot: diagnostic only
                let (t_in, pause) = real.verif_snapshot();
                if t_in != model.t || pause.map(|(s, d)| (s.idx(), d)) != model.pause {
                    acc.count("hook_snapshot_differs_from_model_bookkeeping", 1);
                }
                if spec.animated(model.state) {
                    if let Op::Set(_) = op {
                        acc.sig(format!("{cfg_name}|{}|src={}|{}|zero-adv-before={prev_zero_adv}", model.last_transition, src_phase, if spec.animated(src_state) { "from-animated" } else { "from-idle" }));
                    } else {
                        acc.sig(format!("{cfg_name}|advance|{}|after-{}", phase_of(&model), model.last_transition));
                    }
                }
            }
        }
        prev_zero_adv = matches!(op, Op::Adv(d) if *d == 0.0);
    }
    if index % 9973 == 0 {
        acc.sample(3, || case(ops.len(), "history agreed with the oracle after every operation"));
    }
}
