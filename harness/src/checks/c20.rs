//! C20 — valid configurations never panic / never go non-finite / behave the same in debug and
//! release builds. Hostile alphabets, every call under catch_unwind, canonical output log diffed
//! between the `dev` (overflow-checks, debug-assertions) and `release` builds of the same workload.

use crate::shapes::*;
use crate::spec::*;
use crate::util::*;
use mina::{StateAnimator, Timeline};

const STREAM_TL: u64 = 1;
const STREAM_ANIM: u64 = 2;
const STREAM_INT: u64 = 3;

const REPS: [Rep; 8] = [
    Rep::None, Rep::Times(0), Rep::Times(1), Rep::Times(3), Rep::Times(1 << 24), Rep::Times(u32::MAX - 1), Rep::Times(u32::MAX), Rep::Infinite,
];
const CYCLES: [f32; 11] = [1.0e-45, 1.0e-40, 2.0e-45, f32::MIN_POSITIVE, 1e-30, 1e-3, 0.1, 1.0, 3.0, 1e30, f32::MAX];
const DELAYS: [f32; 9] = [0.0, 1.0e-45, 1.0e-40, 1e-30, 0.5, 1.0, 1e30, f32::MAX, -0.25];

fn hostile_tl(r: &mut Rng, kinds: &[Kind], full_range_ints: bool, huge: Option<bool>) -> TlSpec {
    let cycle = *r.pick(&CYCLES);
    let delay = *r.pick(&DELAYS);
    let repeat = *r.pick(&REPS);
    let n = r.usize(5);
    // "huge" mode: values up to +-3e38 (every interpolated value between two of them is representable) with
    // easings that stay within [0,1]; otherwise values up to +-1e37 with all easings incl. the Back family
    // (an animator decides this once for all its timelines: a blend carries the current values of one state into
    // the first segment of another, and 3.2e38 under a Back easing legitimately leaves the f32 range)
    let huge = huge.unwrap_or_else(|| r.chance(1, 6));
    let n_eas = if huge { 26 } else { 29 };
    let mut kfs = Vec::new();
    for _ in 0..n {
        let pos = match r.below(8) {
            0 => 0.0,
            1 => 1.0,
            2 => next_down(1.0),
            3 => f32::from_bits(1),
            4 => f32::MIN_POSITIVE,
            5 => 0.5,
            _ => r.unit() as f32,
        };
        let vals = kinds
            .iter()
            .map(|k| {
                if r.chance(1, 4) {
                    return None;
                }
                Some(match k {
                    Kind::F32 | Kind::F64 if huge => *r.pick(&[3.0e38f64, -3.0e38, 1.0e38, -1.0e38, 0.0, 2.5e38]),
                    Kind::F32 | Kind::F64 => match r.below(6) {
                        0 => 1e37,
                        1 => -1e37,
                        2 => 0.0,
                        3 => 1e-38,
                        _ => gen_value(r, *k),
                    },
                    _ if full_range_ints => {
                        let (mn, mx) = k.range();
                        let mxf = if mx > 16777216.0 { ((mx as f32) as f64).min(4294967040.0) } else { mx };
                        *r.pick(&[mn, mxf, 0.0f64.max(mn), (mn + mxf) / 2.0])
                    }
                    _ => gen_value(r, *k),
                })
            })
            .collect();
        kfs.push(KfSpec { pos, vals, easing: if r.chance(1, 2) { Some(Eas::Builtin(r.usize(n_eas))) } else { None } });
    }
    kfs.sort_by(|a, b| a.pos.total_cmp(&b.pos));
    TlSpec { cycle, delay, repeat, reverse: r.chance(1, 3), default_easing: if r.chance(1, 2) || huge { Some(Eas::Builtin(r.usize(n_eas))) } else { None }, kfs }
}

fn hostile_times(s: &TlSpec, r: &mut Rng) -> Vec<f32> {
    let mut ts = vec![0.0f32, -0.0, 1.0e-45, f32::MIN_POSITIVE, 1e-30, 1.0, 1e9, 1e30, f32::MAX];
    let mut bs = vec![s.delay.max(0.0)];
    let n = s.repeat.cycles().unwrap_or(3).min(3) as f32;
    for j in 0..=(2.0 * n) as u32 {
        bs.push(s.delay + j as f32 * s.cycle / 2.0);
    }
    if let Some(c) = s.repeat.cycles() {
        bs.push(s.delay + s.cycle * c as f32);
        bs.push(((s.delay as f64) + (s.cycle as f64) * c as f64) as f32);
    }
    for b in bs {
        if b.is_finite() && b >= 0.0 {
            ts.push(b);
            ts.push(next_up(b));
            ts.push(next_down(b).max(0.0));
        }
    }
    for _ in 0..4 {
        ts.push((r.unit() * 10.0) as f32);
    }
    ts.retain(|t| t.is_finite() && *t >= 0.0); // note: -0.0 >= 0.0 holds, negative zero is a valid time
    ts
}

struct Out {
    lines: Vec<String>,
}

fn fields_log<S: Shape>(v: &S) -> String {
    (0..S::n()).map(|i| format!("{:x}", v.bits(i))).collect::<Vec<_>>().join(",")
}

fn scan<S: Shape>(v: &S) -> Option<usize> {
    (0..S::n()).find(|i| !v.get(*i).is_finite())
}

fn panic_key(msg: &str) -> String {
    // "message @ file:line" -> stable key
    let (m, loc) = msg.rsplit_once(" @ ").unwrap_or((msg, ""));
    let m: String = m.chars().take(48).collect();
    format!("c20:panic:{}:{}", loc.rsplit('/').next().unwrap_or(loc), m.replace(' ', "_"))
}

fn tl_case<S: Shape>(r: &mut Rng, acc: &mut Acc, out: &mut Out, stream: u64, index: u64, full_range_ints: bool) {
    let kinds = &S::KINDS[..S::N_ANIM];
    let spec = hostile_tl(r, kinds, full_range_ints, None);
    let spec0 = spec.clone();
    let case = |what: &str, t: f32| {
        case_json(stream, index, vec![("shape", J::s(S::NAME)), ("timeline", spec0.json()), ("t", J::F(t as f64)), ("t_bits", J::U(t.to_bits() as u64)), ("clause", J::s(what))])
    };
    acc.eval();
    // one timeline in six leaves some of the timing setters out: a builder that was told nothing about its
    // duration / delay / repeat / reverse is a valid configuration like any other (whatever its defaults are)
    let omit: u8 = if r.chance(1, 6) { 1 + r.below(15) as u8 } else { 0 };
    let tl = match catch(|| crate::shapes::with_omitted(omit, || S::build_tl(&spec))) {
        Ok(t) => t,
        Err(m) => {
            out.lines.push(format!("{stream}|{index}|build|PANIC({m})"));
            acc.violation(panic_key(&m), format!("building a valid timeline panicked: {m}"), case("build", 0.0));
            return;
        }
    };
    let mut tl = tl;
    let mut spec = spec;
    if omit != 0 {
        // from here on the specification describes what the builder reports for the omitted settings (probe times
        // are derived from it); nothing is demanded of the defaults beyond what is demanded of any configuration
        if let Ok((d, c, _, rep)) = catch(|| (tl.delay(), tl.cycle_duration(), tl.duration(), tl.repeat())) {
            if omit & 1 != 0 { spec.cycle = c.unwrap_or(f32::NAN); }
            if omit & 2 != 0 { spec.delay = d; }
            if omit & 4 != 0 { spec.repeat = Rep::from_mina(rep); }
            if !(spec.cycle > 0.0 && spec.cycle.is_finite() && spec.delay.is_finite()) {
                acc.violation(
                    "c20:unconfigured-builder",
                    format!("a builder whose timing was left (partly) unconfigured (omitted setters mask {omit:#b}) reports cycle {:?}, delay {d}: not a valid configuration (cycle > 0, finite delay)", c),
                    case("defaults form a valid configuration", 0.0),
                );
                return;
            }
        }
    }
    let spec = spec;
    let case = |what: &str, t: f32| {
        case_json(stream, index, vec![("shape", J::s(S::NAME)), ("timeline", spec.json()), ("omitted_timing_setters_mask", J::U(omit as u64)), ("t", J::F(t as f64)), ("t_bits", J::U(t.to_bits() as u64)), ("clause", J::s(what))])
    };
    if r.chance(1, 3) {
        let mut v = S::default();
        for i in 0..S::n() {
            v.set(i, gen_value(r, S::KINDS[i]));
        }
        if let Err(m) = catch(|| tl.start_with(&v)) {
            out.lines.push(format!("{stream}|{index}|start_with|PANIC({m})"));
            acc.violation(panic_key(&m), format!("start_with panicked: {m}"), case("start_with", 0.0));
            return;
        }
    }
    // queries
    acc.eval();
    match catch(|| (tl.delay(), tl.cycle_duration(), tl.duration(), tl.repeat())) {
        Ok((d, c, dur, rep)) => {
            out.lines.push(format!("{stream}|{index}|meta|{:x},{:?},{:x},{:?}", d.to_bits(), c.map(|x| x.to_bits()), dur.to_bits(), rep));
            let true_total = spec.total() ;
            let bad = dur.is_nan() || d.is_nan() || (spec.repeat != Rep::Infinite && true_total.abs() < 3.0e38 && !dur.is_finite()) || (spec.repeat == Rep::Infinite && dur != f32::INFINITY);
            // a finite repeat count must give the documented total (2 ulp)
            let wrong = spec.repeat != Rep::Infinite && true_total.abs() < 3.0e38 && dur.is_finite() && (dur as f64 - true_total).abs() > 4.0 * ulp32(true_total as f32) as f64;
            if bad || wrong {
                acc.violation(
                    format!("c20:duration:{}", spec.repeat.class()),
                    format!("duration() = {dur} for delay {} cycle {} repeat {:?} (delay + cycle x (repeats+1) = {true_total})", spec.delay, spec.cycle, spec.repeat),
                    case("duration finite and as documented", 0.0),
                );
            }
        }
        Err(m) => {
            out.lines.push(format!("{stream}|{index}|meta|PANIC({m})"));
            acc.violation(panic_key(&m), format!("querying delay/cycle_duration/duration/repeat panicked: {m} (repeat {:?})", spec.repeat), case("query", 0.0));
        }
    }
    for t in hostile_times(&spec, r) {
        acc.eval();
        let mut v = S::default();
        for i in 0..S::n() {
            v.set(i, 5.0);
        }
        match catch(|| {
            tl.update(&mut v, t);
        }) {
            Ok(()) => {
                out.lines.push(format!("{stream}|{index}|{:x}|{}", t.to_bits(), fields_log(&v)));
                if let Some(f) = scan(&v) {
                    acc.violation(
                        format!("c20:nonfinite:{}", spec.repeat.class()),
                        format!("update at t={t} produced {} for field {} from finite inputs (delay {}, cycle {}, repeat {:?})", v.get(f), S::FIELDS[f], spec.delay, spec.cycle, spec.repeat),
                        case("finite in, finite out", t),
                    );
                }
                // Times(n) must not end before its documented total (catches a wrapped repeat count)
                if let (Rep::Times(n), true) = (spec.repeat, spec.delay >= 0.0) {
                    let total = spec.delay as f64 + spec.cycle as f64 * (n as f64 + 1.0);
                    if n >= 1 && (t as f64) > spec.delay as f64 + 1.5 * spec.cycle as f64 && (t as f64) < total * 0.5 && spec.cycle >= 1e-3 && spec.cycle <= 3.0 {
                        // inside the active span well after the first cycle: a linear probe would be
                        // mid-cycle; we only check that the timeline is not already resting at its
                        // terminal value for *every* such time (done in aggregate by the caller)
                        acc.count("times_inside_long_active_span", 1);
                    }
                }
            }
            Err(m) => {
                out.lines.push(format!("{stream}|{index}|{:x}|PANIC({m})", t.to_bits()));
                acc.violation(panic_key(&m), format!("update at t={t} panicked: {m} (delay {}, cycle {}, repeat {:?})", spec.delay, spec.cycle, spec.repeat), case("no panic", t));
            }
        }
    }
    let tclass = if spec.cycle <= 1e-30 { "tiny-cycle" } else if spec.cycle >= 1e30 { "huge-cycle" } else { "normal-cycle" };
    let dclass = if spec.delay >= 1e30 { "huge-delay" } else if spec.delay < 0.0 { "neg-delay" } else { "delay" };
    let rclass = match spec.repeat { Rep::Times(n) if n >= u32::MAX - 1 => "times-max", Rep::Times(n) if n >= 1 << 24 => "times-2^24", x => x.class() };
    acc.sig(format!("{}|{tclass}|{dclass}|{rclass}|rev={}|ints={full_range_ints}", S::NAME, spec.reverse));
    if index % 997 == 0 {
        acc.sample(3, || case("all calls returned, outputs finite", 1.0));
    }
}

/// The empty merged timeline (and one nested inside another merge) is a valid timeline: its accessors must be finite
/// and nothing may panic or be written.
fn empty_merge_case<S: Shape>(r: &mut Rng, acc: &mut Acc, out: &mut Out, stream: u64, index: u64) {
    use mina::MergedTimeline;
    let case = |what: &str| case_json(stream, index, vec![("shape", J::s(S::NAME)), ("timeline", J::s("MergedTimeline::of([]) / MergedTimeline::of([MergedTimeline::of([])])")), ("clause", J::s(what))]);
    let t = *r.pick(&[0.0f32, 1.0, 1e30, f32::MAX, 0.125]);
    let res = catch(|| {
        let e = MergedTimeline::<S::Tl>::of(Vec::new());
        let n = MergedTimeline::of([MergedTimeline::<S::Tl>::of(Vec::new()), MergedTimeline::<S::Tl>::of(Vec::new())]);
        let mut v = S::default();
        for i in 0..S::n() { v.set(i, 5.0); }
        let before = v.all_bits();
        e.update(&mut v, t);
        n.update(&mut v, t);
        let mut e2 = e.clone();
        e2.start_with(&v);
        e2.update(&mut v, t);
        (e.delay(), e.duration(), e.cycle_duration(), e.repeat(), n.delay(), n.duration(), n.cycle_duration(), n.repeat(), before == v.all_bits())
    });
    acc.eval();
    match res {
        Ok((d, dur, c, rep, nd, ndur, nc, nrep, untouched)) => {
            out.lines.push(format!("{stream}|{index}|empty-merge|{:x},{:x},{:?},{:?},{:x},{:x},{:?},{:?},{untouched}", d.to_bits(), dur.to_bits(), c.map(|x| x.to_bits()), rep, nd.to_bits(), ndur.to_bits(), nc.map(|x| x.to_bits()), nrep));
            let fin = |x: f32| x.is_finite();
            if !(fin(d) && fin(dur) && fin(nd) && fin(ndur) && c.map_or(true, fin) && nc.map_or(true, fin)) || rep == mina::Repeat::Infinite || nrep == mina::Repeat::Infinite {
                acc.violation("c20:empty-merge-accessors", format!("empty merged timeline reports delay {d} duration {dur} cycle {:?} repeat {:?}; nested: delay {nd} duration {ndur} cycle {:?} repeat {:?} — not finite although nothing in it is infinite", c, rep, nc, nrep), case("finite in, finite out"));
            }
            if !untouched {
                acc.violation("c20:empty-merge-writes", "evaluating an empty merged timeline changed the target".to_string(), case("empty merge touches nothing"));
            }
            acc.sig("empty-merge".to_string());
        }
        Err(m) => {
            out.lines.push(format!("{stream}|{index}|empty-merge|PANIC({m})"));
            acc.violation(panic_key(&m), format!("empty merged timeline panicked: {m}"), case("no panic"));
        }
    }
}

fn anim_case<S: Shape>(r: &mut Rng, acc: &mut Acc, out: &mut Out, index: u64) {
    let kinds = &S::KINDS[..S::N_ANIM];
    let mut states = Vec::new();
    let huge = Some(r.chance(1, 6));
    for _ in 0..5 {
        states.push(match r.below(4) {
            0 => vec![],
            1 | 2 => vec![hostile_tl(r, kinds, false, huge)],
            _ => vec![hostile_tl(r, kinds, false, huge), hostile_tl(r, kinds, false, huge)],
        });
    }
    let spec = AnimSpec { initial_state: r.usize(5), initial_values: Some(S::KINDS.iter().map(|k| gen_value(r, *k)).collect()), states, force_merged: false };
    let mut ops: Vec<String> = Vec::new();
    let case = |ops: &Vec<String>, what: &str| {
        case_json(STREAM_ANIM, index, vec![("shape", J::s(S::NAME)), ("animator", spec.json()), ("ops", J::A(ops.iter().map(|o| J::s(o.clone())).collect())), ("clause", J::s(what))])
    };
    acc.eval();
    let mut a = match catch(|| build_anim::<S>(&spec)) {
        Ok(a) => a,
        Err(m) => {
            out.lines.push(format!("{STREAM_ANIM}|{index}|build|PANIC({m})"));
            acc.violation(panic_key(&m), format!("building a valid animator panicked: {m}"), case(&ops, "build"));
            return;
        }
    };
    let amounts = [0.0f32, 1e-30, 0.001953125, 0.125, 1.0, 7.5, 1e9, 1e18, 1e19, 1e20, 1e30, f32::MAX];
    for k in 0..24 {
        acc.eval();
        let res = if r.chance(1, 3) {
            let s = r.usize(5);
            ops.push(format!("set_state({s})"));
            catch(|| a.set_state(&STATES[s]))
        } else {
            let d = *r.pick(&amounts);
            ops.push(format!("advance({d:e})"));
            catch(|| a.advance(d))
        };
        match res.and_then(|_| catch(|| (a.is_ended(), a.current_values().clone(), a.current_state().idx()))) {
            Ok((e, v, s)) => {
                out.lines.push(format!("{STREAM_ANIM}|{index}|{k}|{e}|{s}|{}", fields_log(&v)));
                if let Some(f) = scan(&v) {
                    acc.violation("c20:anim-nonfinite", format!("animator field {} became {} after {}", S::FIELDS[f], v.get(f), ops.last().unwrap()), case(&ops, "finite in, finite out"));
                    return;
                }
            }
            Err(m) => {
                out.lines.push(format!("{STREAM_ANIM}|{index}|{k}|PANIC({m})"));
                acc.violation(panic_key(&m), format!("animator {} panicked: {m}", ops.last().unwrap()), case(&ops, "no panic"));
                return;
            }
        }
    }
    acc.sig(format!("anim|{}|huge-advance={}", S::NAME, ops.iter().any(|o| o.contains("e18") || o.contains("e19") || o.contains("e20") || o.contains("e30") || o.contains("e38"))));
}

/// Workload; returns the canonical output log (sorted by case).
fn workload(seed: u64, thorough: bool, rc: Option<(u64, u64)>, run: &mut Run) -> Vec<String> {
    let n_tl: u64 = if thorough { 400_000 } else { 30_000 };
    let n_anim: u64 = if thorough { 100_000 } else { 8_000 };
    let n_int: u64 = if thorough { 200_000 } else { 20_000 };
    let logs = std::sync::Mutex::new(Vec::<(u64, u64, Vec<String>)>::new());
    run.parallel(|w, nw, acc| {
        let mut local = Vec::new();
        for i in my_cases(rc, STREAM_TL, n_tl, w, nw) {
            let mut out = Out { lines: vec![] };
            let mut r = Rng::derive(seed, STREAM_TL, i);
            let shape = r.usize(crate::shapes::N_SHAPES);
            if i % 64 == 7 {
                crate::with_shape!(shape, empty_merge_case(&mut r, acc, &mut out, STREAM_TL, i));
            } else {
                crate::with_shape!(shape, tl_case(&mut r, acc, &mut out, STREAM_TL, i, false));
            }
            local.push((STREAM_TL, i, out.lines));
        }
        for i in my_cases(rc, STREAM_INT, n_int, w, nw) {
            let mut out = Out { lines: vec![] };
            let mut r = Rng::derive(seed, STREAM_INT, i);
            if r.chance(1, 2) {
                tl_case::<S3>(&mut r, acc, &mut out, STREAM_INT, i, true);
            } else {
                tl_case::<S6>(&mut r, acc, &mut out, STREAM_INT, i, true);
            }
            local.push((STREAM_INT, i, out.lines));
        }
        for i in my_cases(rc, STREAM_ANIM, n_anim, w, nw) {
            let mut out = Out { lines: vec![] };
            let mut r = Rng::derive(seed, STREAM_ANIM, i);
            let shape = r.usize(crate::shapes::N_SHAPES);
            crate::with_shape!(shape, anim_case(&mut r, acc, &mut out, i));
            local.push((STREAM_ANIM, i, out.lines));
        }
        logs.lock().unwrap().extend(local);
    });
    let mut l = logs.into_inner().unwrap();
    l.sort_by_key(|(s, i, _)| (*s, *i));
    l.into_iter().flat_map(|(_, _, v)| v).collect()
}

pub fn log_only(run: &mut Run, path: &str) {
    let seed = run.seed;
    let thorough = run.thorough();
    let rc = run.replay_case();
    let log = workload(seed, thorough, rc, run);
    std::fs::write(path, log.join("\n") + "\n").expect("write log");
}

pub fn run(run: &mut Run) {
    run.rule = "hostile alphabets: repeat in {None, Times 0/1/3/2^24/u32::MAX-1/u32::MAX, Infinite}, cycle in {smallest subnormal, 1e-40, MIN_POSITIVE, \
        1e-30 .. 1e30, f32::MAX}, delay in {0, 1e-30 .. 1e30, f32::MAX, -0.25}, keyframe positions incl. 0, 1, 1-ulp, \
        denormal, values up to +-1e37 (up to +-3e38 with easings that stay in [0,1]), integer properties spanning their full type range under all 29 easings, times at \
        0, every phase boundary +-1 ulp, 1e9, 1e30, f32::MAX; animator advances incl. 1e18, 1e19, 1e20, 1e30, f32::MAX \
        (sums beyond Duration::MAX); every build/evaluate/query call under catch_unwind, every output scanned for \
        NaN/inf, duration() compared with the documented total, and the canonical output log of the identical seeded \
        workload diffed between the dev (overflow-checks, debug-assertions) and release builds; non-trivial = a case \
        with at least one extreme parameter; distinct = (shape, cycle class, delay class, repeat class, reverse, \
        full-range ints?)"
        .into();
    run.assumptions = vec![
        "extreme *negative* delays and values beyond 1e37 are outside the generated space (true results would not be representable)".into(),
        "catch_unwind observes every panic; the dev-profile binary is built from the same sources".into(),
    ];
    run.min_sigs = 40;
    let seed = run.seed;
    let thorough = run.thorough();
    let rc = run.replay_case();
    let log = workload(seed, thorough, rc, run);
    run.extra.push(("log_lines_release".into(), J::U(log.len() as u64)));
    if rc.is_some() {
        for l in &log {
            println!("  {l}");
        }
        return;
    }
    // the identical workload in the dev profile
    let dir = format!("{}/build/logs", verif_dir());
    let _ = std::fs::create_dir_all(&dir);
    let rel_path = format!("{dir}/C20.{}.release.log", run.tier);
    let dev_path = format!("{dir}/C20.{}.dev.log", run.tier);
    let _ = std::fs::write(&rel_path, log.join("\n") + "\n");
    let _ = std::fs::remove_file(&dev_path);
    let dev_bin = format!("{}/target/debug/mv", verif_dir());
    let st = std::process::Command::new(&dev_bin)
        .args(["C20", "--tier", &run.tier, "--seed", &seed.to_string(), "--log-only", &dev_path])
        .status();
    match st {
        Ok(s) if s.success() => {}
        other => {
            run.inconclusive.push(format!("dev-profile run failed: {:?}", other));
            return;
        }
    }
    let dev = std::fs::read_to_string(&dev_path).unwrap_or_default();
    let dev: Vec<&str> = dev.lines().collect();
    run.extra.push(("log_lines_dev".into(), J::U(dev.len() as u64)));
    run.extra.push(("profiles".into(), J::A(vec![J::s("release (no overflow checks)"), J::s("dev (overflow-checks, debug-assertions)")])));
    // compare by case key (stream|index|tag), not by line number
    fn key(l: &str) -> &str {
        let mut n = 0;
        for (i, c) in l.char_indices() {
            if c == '|' {
                n += 1;
                if n == 3 {
                    return &l[..i];
                }
            }
        }
        l
    }
    let devmap: std::collections::HashMap<&str, &str> = dev.iter().map(|l| (key(l), *l)).collect();
    let mut diffs = 0u64;
    for l in log.iter() {
        let d = devmap.get(key(l)).copied().unwrap_or("<missing in dev log>");
        if l != d {
            diffs += 1;
            let mut it = l.split('|');
            let stream: u64 = it.next().and_then(|x| x.parse().ok()).unwrap_or(0);
            let index: u64 = it.next().and_then(|x| x.parse().ok()).unwrap_or(0);
            let kind = if d.contains("PANIC") || l.contains("PANIC") {
                let p = if d.contains("PANIC") { d } else { l.as_str() };
                let msg = p.split("PANIC(").nth(1).unwrap_or("").trim_end_matches(')');
                format!("panic-in-one-profile:{}", panic_key(msg))
            } else if d.starts_with("<missing") {
                "case-cut-short-in-dev".to_string()
            } else {
                "different-output".to_string()
            };
            run.acc.violation(
                format!("c20:profile-diff:{kind}"),
                format!("debug and release builds disagree: release `{l}` vs dev `{d}`"),
                case_json(stream, index, vec![("release", J::s(l.clone())), ("dev", J::s(d))]),
            );
        }
    }
    run.extra.push(("profile_log_differences".into(), J::U(diffs)));
    run.acc.evals(log.len() as u64);
}
