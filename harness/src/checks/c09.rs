//! C09 — a timeline is a pure, repeatable function of time (relational, bit-exact).

use crate::checks::c08::fill_sentinels;
use crate::shapes::*;
use crate::spec::*;
use crate::util::*;
use crate::with_shape;
use mina::Timeline;

const STREAM: u64 = 1;

pub fn run(run: &mut Run) {
    run.rule = "generated single and merged timelines; a multiset of ~64 times from all phases evaluated ascending into \
        fresh defaults (reference), then in random permutations, backwards, twice in a row, into sentinel-filled targets, \
        and interleaved between the original and two clones (one taken before, one after the burst); Debug digest of the \
        timeline before/after; start_with sequences v1..vk (k<=4) against a fresh twin that only received vk, and \
        metadata before/after start_with; all comparisons bit-exact on the animated-and-keyframed fields; non-trivial = \
        a timeline with >= 1 keyframed property evaluated in the active phase; distinct = (timeline kind, order class, \
        start_with count, merged?)"
        .into();
    run.assumptions = vec!["derive(Debug) output reflects all state of the generated timeline (digest clause only)".into()];
    run.min_sigs = 30;
    let n: u64 = if run.thorough() { 400_000 } else { 100_000 };
    let seed = run.seed;
    let rc = run.replay_case();
    run.parallel(|w, nw, acc| {
        for i in my_cases(rc, STREAM, n, w, nw) {
            guarded(acc, "c09", STREAM, i, |acc| {
                let mut r = Rng::derive(seed, STREAM, i);
                let shape = r.usize(crate::shapes::N_SHAPES);
                with_shape!(shape, case(&mut r, acc, i));
            });
        }
    });
}

enum AnyTl<S: Shape> {
    One(S::Tl),
    Many(mina::MergedTimeline<S::Tl>),
}
impl<S: Shape> AnyTl<S> {
    fn update(&self, v: &mut S, t: f32) {
        match self {
            AnyTl::One(x) => x.update(v, t),
            AnyTl::Many(x) => x.update(v, t),
        }
    }
    fn start_with(&mut self, v: &S) {
        match self {
            AnyTl::One(x) => x.start_with(v),
            AnyTl::Many(x) => x.start_with(v),
        }
    }
    fn clone2(&self) -> Self {
        match self {
            AnyTl::One(x) => AnyTl::One(x.clone()),
            AnyTl::Many(x) => AnyTl::Many(x.clone()),
        }
    }
    fn meta(&self) -> (u32, Option<u32>, u32, Rep) {
        match self {
            AnyTl::One(x) => (x.delay().to_bits(), x.cycle_duration().map(|c| c.to_bits()), x.duration().to_bits(), Rep::from_mina(x.repeat())),
            AnyTl::Many(x) => (x.delay().to_bits(), x.cycle_duration().map(|c| c.to_bits()), x.duration().to_bits(), Rep::from_mina(x.repeat())),
        }
    }
    fn digest(&self) -> Option<String> {
        match self {
            AnyTl::One(x) => Some(format!("{:?}", x)),
            AnyTl::Many(_) => None,
        }
    }
}

fn build<S: Shape>(specs: &[TlSpec], merged: bool) -> AnyTl<S> {
    if merged { AnyTl::Many(build_merged::<S>(specs)) } else { AnyTl::One(S::build_tl(&specs[0])) }
}

fn case<S: Shape>(r: &mut Rng, acc: &mut Acc, index: u64) {
    let kinds = &S::KINDS[..S::N_ANIM];
    let merged = r.chance(1, 4);
    let n_comp = if merged { 1 + r.usize(3) } else { 1 };
    let specs: Vec<TlSpec> = (0..n_comp).map(|_| gen_tl(r, kinds, &GenOpts { neg_delay: true, shuffle: true, ..GenOpts::default() })).collect();
    let keyed: Vec<bool> = (0..S::n()).map(|f| f < S::N_ANIM && specs.iter().any(|s| s.defines(f))).collect();
    let mut tl = build::<S>(&specs, merged);
    let n_start = r.usize(5);
    let mut starts: Vec<S> = Vec::new();
    let meta0 = tl.meta();
    for _ in 0..n_start {
        let mut v = S::default();
        for i in 0..S::n() {
            v.set(i, gen_value(r, S::KINDS[i]));
        }
        tl.start_with(&v);
        starts.push(v);
    }
    let case = |what: &str, t: f32| {
        case_json(STREAM, index, vec![
            ("shape", J::s(S::NAME)), ("timelines", J::A(specs.iter().map(|s| s.json()).collect())), ("merged", J::B(merged)),
            ("start_with_sequence", J::A(starts.iter().map(|s| J::A(s.vals().into_iter().map(J::F).collect())).collect())),
            ("t", J::F(t as f64)), ("clause", J::s(what)),
        ])
    };
    acc.eval();
    if tl.meta() != meta0 {
        acc.violation("c09:start_with-metadata", "start_with changed delay/cycle/duration/repeat".to_string(), case("metadata unchanged by start_with", 0.0));
    }
    // times from all phases
    let mut times: Vec<f32> = Vec::new();
    for s in &specs {
        times.extend(phase_times(s, &[0.0, 0.125, 0.3125, 0.5, 0.6875, 0.9375, 1.0], r));
    }
    for _ in 0..8 {
        times.push((r.unit() * 12.0) as f32);
    }
    times.sort_by(|a, b| a.total_cmp(b));
    times.dedup();
    if times.len() > 64 {
        let step = times.len() as f64 / 64.0;
        times = (0..64).map(|i| times[(i as f64 * step) as usize]).collect();
    }
    let digest0 = tl.digest();
    let clone_before = tl.clone2();
    // (i) ascending into fresh defaults = reference
    let reference: Vec<S> = times
        .iter()
        .map(|t| {
            let mut v = S::default();
            tl.update(&mut v, *t);
            v
        })
        .collect();
    let cmp = |acc: &mut Acc, v: &S, ti: usize, what: &str, key: &str| {
        acc.eval();
        for f in 0..S::n() {
            if keyed[f] && v.bits(f) != reference[ti].bits(f) && !(v.get(f) == 0.0 && reference[ti].get(f) == 0.0) {
                acc.violation(
                    format!("c09:{key}"),
                    format!("{what}: field {} at t={} is {} but the first evaluation gave {}", S::FIELDS[f], times[ti], v.get(f), reference[ti].get(f)),
                    case(what, times[ti]),
                );
                return false;
            }
        }
        true
    };
    // (ii) random permutations
    let n_perm = 6;
    for _ in 0..n_perm {
        let mut order: Vec<usize> = (0..times.len()).collect();
        r.shuffle(&mut order);
        for ti in order {
            let mut v = S::default();
            tl.update(&mut v, times[ti]);
            cmp(acc, &v, ti, "random query order", "order");
        }
    }
    // (iii) backwards, (iv) twice in a row, (v) sentinel-filled targets
    for ti in (0..times.len()).rev() {
        let mut v = S::default();
        tl.update(&mut v, times[ti]);
        cmp(acc, &v, ti, "scrubbing backwards", "order");
        tl.update(&mut v, times[ti]);
        cmp(acc, &v, ti, "second evaluation into the same target (idempotence)", "idempotent");
        let mut s = fill_sentinels::<S>(r);
        tl.update(&mut s, times[ti]);
        cmp(acc, &s, ti, "target pre-filled with arbitrary contents", "prior-contents");
        // carry-over target: evaluate another time first into the same target
        let other = times[(ti * 7 + 3) % times.len()];
        let mut c = S::default();
        tl.update(&mut c, other);
        tl.update(&mut c, times[ti]);
        cmp(acc, &c, ti, "target previously written by another evaluation", "prior-contents");
    }
    // (vi) clones
    let clone_after = tl.clone2();
    for ti in 0..times.len() {
        for (nm, c) in [("clone taken before the burst", &clone_before), ("clone taken after the burst", &clone_after)] {
            let mut v = S::default();
            c.update(&mut v, times[ti]);
            cmp(acc, &v, ti, nm, "clone");
        }
        let mut v = S::default();
        tl.update(&mut v, times[ti]);
        cmp(acc, &v, ti, "original interleaved with clones", "order");
    }
    acc.eval();
    if tl.digest() != digest0 {
        acc.violation("c09:digest", "Debug digest of the timeline changed across evaluations".to_string(), case("state digest unchanged by evaluation", 0.0));
    }
    // evaluations of an *unrelated* timeline in between (same keyframe positions and timing, hence the
    // same segment fractions, but different custom easings and values) must not leak into this one
    {
        let other_specs: Vec<TlSpec> = specs
            .iter()
            .map(|sp| {
                let mut o = sp.clone();
                let shift = |e: &Eas| match e {
                    Eas::Rec(id) => Eas::Rec((id + 3) % 10),
                    Eas::Builtin(i) => Eas::Rec((*i as u32) % 10),
                };
                o.default_easing = o.default_easing.as_ref().map(shift);
                for k in o.kfs.iter_mut() {
                    k.easing = k.easing.as_ref().map(shift);
                    for v in k.vals.iter_mut() {
                        *v = v.map(|x| (x * 0.5).round());
                    }
                }
                o
            })
            .collect();
        let other = build::<S>(&other_specs, merged);
        for ti in 0..times.len() {
            let mut z = S::default();
            other.update(&mut z, times[ti]);
            let mut x = S::default();
            tl.update(&mut x, times[ti]);
            cmp(acc, &x, ti, "evaluated right after an unrelated timeline with different custom easings at the same time", "leak-from-other-timeline");
        }
    }
    // start_with on a clone must not reach the original (no shared state between clones)
    {
        let mut c = tl.clone2();
        let mut v = S::default();
        for i in 0..S::n() {
            v.set(i, gen_value(r, S::KINDS[i]));
        }
        c.start_with(&v);
        for ti in (0..times.len()).step_by(3) {
            let mut x = S::default();
            tl.update(&mut x, times[ti]);
            cmp(acc, &x, ti, "original after start_with was called on its clone", "clone-shares-state");
        }
    }
    // start_with: only the last one counts
    if n_start >= 1 {
        let mut twin = build::<S>(&specs, merged);
        twin.start_with(starts.last().unwrap());
        for ti in 0..times.len() {
            let mut v = S::default();
            twin.update(&mut v, times[ti]);
            cmp(acc, &v, ti, "fresh twin that only received the last start_with", "start_with-accumulates");
        }
    }
    // start_with while clones of the timeline are alive: it must take effect on the instance it is
    // called on (original or clone) and on that instance only
    {
        let mut w = S::default();
        for i in 0..S::n() {
            w.set(i, gen_value(r, S::KINDS[i]));
        }
        let alive = tl.clone2(); // a clone that stays alive across the call
        tl.start_with(&w);
        let mut fresh = build::<S>(&specs, merged);
        fresh.start_with(&w);
        let mut z = S::default();
        for i in 0..S::n() {
            z.set(i, gen_value(r, S::KINDS[i]));
        }
        let mut c2 = tl.clone2();
        c2.start_with(&z);
        let mut fresh_z = build::<S>(&specs, merged);
        fresh_z.start_with(&z);
        for ti in (0..times.len()).step_by(2) {
            let (mut a, mut b, mut c, mut d) = (S::default(), S::default(), S::default(), S::default());
            tl.update(&mut a, times[ti]);
            fresh.update(&mut b, times[ti]);
            c2.update(&mut c, times[ti]);
            fresh_z.update(&mut d, times[ti]);
            acc.evals(2);
            for f in 0..S::n() {
                if keyed[f] && !(a.bits(f) == b.bits(f) || (a.get(f) == 0.0 && b.get(f) == 0.0)) {
                    acc.violation("c09:start_with-ignored-while-clone-alive", format!("start_with on a timeline that has a live clone: field {} at t={} is {} but a fresh timeline given the same start value yields {}", S::FIELDS[f], times[ti], a.get(f), b.get(f)), case("start_with with a live clone", times[ti]));
                    break;
                }
                if keyed[f] && !(c.bits(f) == d.bits(f) || (c.get(f) == 0.0 && d.get(f) == 0.0)) {
                    acc.violation("c09:start_with-on-clone", format!("start_with on a clone: field {} at t={} is {} but a fresh timeline given the same start value yields {}", S::FIELDS[f], times[ti], c.get(f), d.get(f)), case("start_with on a clone", times[ti]));
                    break;
                }
            }
        }
        drop(alive);
    }
    if keyed.iter().any(|k| *k) {
        acc.sig(format!("{}|merged={merged}|starts={n_start}|{}", specs[0].kind_name(), S::NAME));
        acc.sample(2, || case("all orders / clones / prior contents agree bit-for-bit", times[times.len() / 2]));
    }
}
