//! C08 — properties a timeline does not animate are never touched (sentinel bit patterns).

use crate::shapes::*;
use crate::spec::*;
use crate::util::*;
use crate::with_shape;
use mina::{StateAnimator, Timeline};

const STREAM_TL: u64 = 1;
const STREAM_ANIM: u64 = 2;

pub fn run(run: &mut Run) {
    run.rule = "derive timelines over 8 shapes (three with fields lacking #[animate], one of them a remote proxy), sparse keyframe sets where properties \
        have no keyframe, empty timelines, merged timelines and state animators; every target field is pre-filled with a \
        random bit pattern (NaN payloads included) and compared bit-for-bit after update at times from every phase \
        (before start, active, later cycles, reverse pass, ended); in animator histories every field the current state's \
        timeline does not animate must be bit-unchanged by each operation (builder-built animators from generated configurations and three `animator!` blocks with looping arms lacking a 0 % keyframe, timing-only, merged and overlapping arms); non-trivial = at least one untouched field \
        next to at least one animated field (or an empty timeline); distinct = (shape, set of untouched fields, phase, \
        merged?, empty?)"
        .into();
    run.assumptions = vec!["'animated-and-keyframed set' is computed from the generated specification".into()];
    run.min_sigs = 40;
    let n: u64 = if run.thorough() { 2_000_000 } else { 400_000 };
    let seed = run.seed;
    let rc = run.replay_case();
    run.parallel(|w, nw, acc| {
        for i in my_cases(rc, STREAM_TL, n, w, nw) {
            guarded(acc, "c08", STREAM_TL, i, |acc| {
                let mut r = Rng::derive(seed, STREAM_TL, i);
                let shape = r.usize(crate::shapes::N_SHAPES);
                with_shape!(shape, tl_case(&mut r, acc, i));
            });
        }
        for i in my_cases(rc, STREAM_MACRO, n / 200, w, nw) {
            guarded(acc, "c08", STREAM_MACRO, i, |acc| {
                let mut r = Rng::derive(seed, STREAM_MACRO, i);
                macro_anim_case(&mut r, acc, i);
            });
        }
        for i in my_cases(rc, STREAM_ANIM, n / 10, w, nw) {
            guarded(acc, "c08", STREAM_ANIM, i, |acc| {
                let mut r = Rng::derive(seed, STREAM_ANIM, i);
                let shape = r.usize(crate::shapes::N_SHAPES);
                with_shape!(shape, anim_case(&mut r, acc, i));
            });
        }
    });
}

const STREAM_MACRO: u64 = 3;

fn macro_anim_case(r: &mut Rng, acc: &mut Acc, index: u64) {
    use crate::shapes::S4;
    use mina::StateAnimator;
    for (name, mut a, animated) in crate::shapes::macro_animators() {
        let mut ops: Vec<String> = Vec::new();
        for _ in 0..60 {
            let before = a.current_values().clone();
            let op = if r.chance(2, 5) {
                let s = r.usize(5);
                a.set_state(&crate::shapes::STATES[s]);
                format!("set_state({s})")
            } else {
                let d = *r.pick(&[0.0f32, 0.001953125, 0.125, 0.25, 0.5, 1.0, 2.0, 7.5, 0.3]);
                a.advance(d);
                format!("advance({d})")
            };
            ops.push(op.clone());
            let st = a.current_state().idx();
            acc.eval();
            for f in 0..S4::n() {
                if !animated[st].contains(&f) && before.bits(f) != a.current_values().bits(f) {
                    acc.violation(
                        "c08:macro-animator",
                        format!("animator! block \"{name}\": field {} has no keyframe in the timeline of state {st} but changed from {} to {} on {op}", S4::FIELDS[f], before.get(f), a.current_values().get(f)),
                        case_json(STREAM_MACRO, index, vec![("animator", J::s(name)), ("ops", J::A(ops.iter().map(|o| J::s(o.clone())).collect())), ("clause", J::s("fields without a keyframe in the current state's timeline are never written"))]),
                    );
                    return;
                }
            }
            if animated[st].len() < 4 && before.all_bits() != a.current_values().all_bits() {
                acc.sig(format!("macro-animator|{name}|state{st}"));
            }
        }
    }
}

pub fn sentinel_bits(r: &mut Rng, k: Kind) -> u64 {
    match k {
        Kind::F32 => match r.below(4) {
            0 => 0x7fc0_1234u64 + r.below(1000), // NaN payloads
            1 => 0xffff_ffffu64,
            _ => r.next() & 0xffff_ffff,
        },
        Kind::F64 => match r.below(4) {
            0 => 0x7ff8_0000_0000_1234u64 + r.below(1000),
            _ => r.next(),
        },
        Kind::U8 => r.below(256),
        Kind::I8 => (r.range(-128, 127)) as u64,
        Kind::I16 => (r.range(-32768, 32767)) as u64,
        Kind::U16 => r.below(65536),
        Kind::I32 => (r.next() as i32) as i64 as u64,
        Kind::U32 => r.next() & 0xffff_ffff,
        Kind::I64 | Kind::U64 => r.next(),
    }
}

pub fn fill_sentinels<S: Shape>(r: &mut Rng) -> S {
    let mut s = S::default();
    for i in 0..S::n() {
        s.set_bits(i, sentinel_bits(r, S::KINDS[i]));
    }
    s
}

fn tl_case<S: Shape>(r: &mut Rng, acc: &mut Acc, index: u64) {
    let kinds = &S::KINDS[..S::N_ANIM];
    let n_comp = if r.chance(1, 4) { 1 + r.usize(3) } else { 1 };
    let mut specs = Vec::new();
    for _ in 0..n_comp {
        let mut spec = gen_tl(r, kinds, &GenOpts::default());
        // force some properties to have no keyframe at all
        for f in 0..S::N_ANIM {
            if r.chance(1, 3) {
                for k in spec.kfs.iter_mut() {
                    k.vals[f] = None;
                }
            }
        }
        if r.chance(1, 12) {
            spec.kfs.clear();
        }
        specs.push(spec);
    }
    let touched: Vec<bool> = (0..S::n()).map(|f| f < S::N_ANIM && specs.iter().any(|s| s.defines(f))).collect();
    let merged = n_comp > 1 || r.chance(1, 8);
    let single = if merged { None } else { Some(S::build_tl(&specs[0])) };
    let multi = if merged { Some(build_merged::<S>(&specs)) } else { None };
    let with_start = r.chance(1, 3);
    let (mut single, mut multi) = (single, multi);
    if with_start {
        let v = fill_sentinels::<S>(r);
        // start_with must not make an un-keyframed property animated either
        let mut clean = S::default();
        for i in 0..S::n() {
            clean.set(i, gen_value(r, S::KINDS[i]));
        }
        let _ = v;
        if let Some(t) = single.as_mut() { t.start_with(&clean) }
        if let Some(t) = multi.as_mut() { t.start_with(&clean) }
    }
    let s0 = &specs[0];
    let mut times = phase_times(s0, &[0.0, 0.3125, 0.5, 0.75, 1.0], r);
    times.push((r.unit() * 20.0) as f32);
    let untouched_names: Vec<&str> = (0..S::n()).filter(|f| !touched[*f]).map(|f| S::FIELDS[f]).collect();
    let all_empty = specs.iter().all(|s| s.kfs.is_empty());
    for t in times {
        let before = fill_sentinels::<S>(r);
        let mut v = before.clone();
        match (&single, &multi) {
            (Some(tl), _) => tl.update(&mut v, t),
            (_, Some(tl)) => tl.update(&mut v, t),
            _ => unreachable!(),
        }
        acc.eval();
        let m = crate::model::mscale_spec(s0, t as f64);
        for f in 0..S::n() {
            if !touched[f] && v.bits(f) != before.bits(f) {
                acc.violation(
                    format!("c08:{}", if f >= S::N_ANIM { "excluded-field" } else if all_empty { "empty-timeline" } else { "no-keyframe" }),
                    format!("{}: field {} (not animated by this timeline) changed from bits {:#x} to {:#x} at t={t}", S::NAME, S::FIELDS[f], before.bits(f), v.bits(f)),
                    case_json(STREAM_TL, index, vec![
                        ("shape", J::s(S::NAME)), ("timelines", J::A(specs.iter().map(|s| s.json()).collect())), ("merged", J::B(merged)),
                        ("t", J::F(t as f64)), ("field", J::s(S::FIELDS[f])), ("sentinel_bits", J::U(before.bits(f))),
                    ]),
                );
            }
        }
        if !untouched_names.is_empty() && (touched.iter().any(|x| *x) || all_empty) {
            acc.sig(format!("{}|{}|{}|merged={merged}|empty={all_empty}", S::NAME, untouched_names.join(","), m.class()));
        }
    }
    // keyframe_from route: a timeline built from a whole value must still leave excluded fields alone
    if S::N_ANIM < S::n() {
        let mut v = S::default();
        for i in 0..S::n() {
            v.set(i, gen_value(r, S::KINDS[i]));
        }
        let p = *r.pick(&[0.0f32, 0.5, 1.0]);
        let tl = S::build_from_value(&v, p);
        for t in [-1.0f32, 0.0, p, 0.75, 1.0, 5.0] {
            let before = fill_sentinels::<S>(r);
            let mut out = before.clone();
            tl.update(&mut out, t);
            acc.eval();
            for f in S::N_ANIM..S::n() {
                if out.bits(f) != before.bits(f) {
                    acc.violation(
                        "c08:excluded-field-via-keyframe_from",
                        format!("{}: field {} is excluded from animation but a timeline built with keyframe_from changed it from bits {:#x} to {:#x} at t={t}", S::NAME, S::FIELDS[f], before.bits(f), out.bits(f)),
                        case_json(STREAM_TL, index, vec![("shape", J::s(S::NAME)), ("clause", J::s("keyframe_from")), ("t", J::F(t as f64)), ("field", J::s(S::FIELDS[f]))]),
                    );
                }
            }
            acc.sig(format!("{}|keyframe_from|t={t}", S::NAME));
        }
    }
    acc.sample(3, || {
        J::obj(vec![
            ("stream", J::U(STREAM_TL)), ("index", J::U(index)), ("shape", J::s(S::NAME)),
            ("untouched_fields", J::A(untouched_names.iter().map(|s| J::s(*s)).collect())), ("components", J::U(n_comp as u64)),
        ])
    });
}

pub fn gen_anim<S: Shape>(r: &mut Rng, opts: &GenOpts) -> AnimSpec {
    let kinds = &S::KINDS[..S::N_ANIM];
    let mut states = Vec::new();
    for _ in 0..5 {
        let k = r.below(10);
        let st = if k < 3 {
            vec![]
        } else if k < 8 {
            vec![gen_tl(r, kinds, opts)]
        } else {
            vec![gen_tl(r, kinds, opts), gen_tl(r, kinds, opts)]
        };
        states.push(st);
    }
    AnimSpec {
        initial_state: r.usize(5),
        initial_values: if r.chance(2, 3) { Some(S::KINDS.iter().map(|k| gen_value(r, *k)).collect()) } else { None },
        states,
        force_merged: r.chance(1, 4),
    }
}

fn anim_case<S: Shape>(r: &mut Rng, acc: &mut Acc, index: u64) {
    // negative delays included: a state whose timeline is already running when it is entered changes
    // values at once, which makes transitions without an advance in between observable
    let mut spec = gen_anim::<S>(r, &GenOpts { neg_delay: true, ..GenOpts::default() });
    for st in spec.states.iter_mut() {
        for tl in st.iter_mut() {
            for f in 0..S::N_ANIM {
                if r.chance(1, 3) {
                    for k in tl.kfs.iter_mut() {
                        k.vals[f] = None;
                    }
                }
            }
        }
    }
    let mut a = build_anim::<S>(&spec);
    let mut ops: Vec<J> = Vec::new();
    for _ in 0..40 {
        let before = a.current_values().clone();
        let cur = a.current_state().idx();
        let op_set = r.chance(1, 3);
        let st_after;
        if op_set {
            let s = r.usize(5);
            a.set_state(&STATES[s]);
            ops.push(J::s(format!("set_state({s})")));
            st_after = s;
        } else {
            let dt = *r.pick(&[0.0f32, 0.001953125, 0.125, 1.0, 7.5]);
            a.advance(dt);
            ops.push(J::s(format!("advance({dt})")));
            st_after = cur;
        }
        acc.eval();
        let after = a.current_values();
        for f in 0..S::n() {
            let animated_now = f < S::N_ANIM && spec.states[st_after].iter().any(|t| t.defines(f));
            if !animated_now && after.bits(f) != before.bits(f) {
                acc.violation(
                    "c08:animator",
                    format!("{}: animator field {} is not animated by state {st_after} but changed from {} to {} on {}", S::NAME, S::FIELDS[f], before.get(f), after.get(f), ops.last().unwrap().render()),
                    case_json(STREAM_ANIM, index, vec![("shape", J::s(S::NAME)), ("animator", spec.json()), ("ops", J::A(ops.clone())), ("field", J::s(S::FIELDS[f]))]),
                );
            }
            if !animated_now && spec.animated(st_after) {
                acc.sig(format!("anim|{}|{}|{}", S::NAME, S::FIELDS[f], if op_set { "set_state" } else { "advance" }));
            }
        }
    }
}
