//! Shared plumbing: PRNG, f32 tools, a tiny JSON value, the per-run context (coverage signatures,
//! samples, violations, known findings) and the evidence / replay writers.

use std::collections::{BTreeMap, BTreeSet};
use std::fmt::Write as _;
use std::time::Instant;

// ------------------------------------------------------------------------------------------------
// PRNG (SplitMix64) – no third-party crates.

#[derive(Clone, Debug)]
pub struct Rng(pub u64);

impl Rng {
    pub fn new(seed: u64) -> Self {
        Rng(seed ^ 0x9E37_79B9_7F4A_7C15)
    }
    /// Independent stream for (seed, a, b).
    pub fn derive(seed: u64, a: u64, b: u64) -> Self {
        let mut r = Rng::new(seed);
        r.0 = r.0.wrapping_add(a.wrapping_mul(0xD6E8_FEB8_6659_FD93));
        r.next();
        r.0 = r.0.wrapping_add(b.wrapping_mul(0xCA5A_8263_9512_1157));
        r.next();
        r
    }
    pub fn next(&mut self) -> u64 {
        self.0 = self.0.wrapping_add(0x9E37_79B9_7F4A_7C15);
        let mut z = self.0;
        z = (z ^ (z >> 30)).wrapping_mul(0xBF58_476D_1CE4_E5B9);
        z = (z ^ (z >> 27)).wrapping_mul(0x94D0_49BB_1331_11EB);
        z ^ (z >> 31)
    }
    /// Uniform in 0..n (n > 0).
    pub fn below(&mut self, n: u64) -> u64 {
        self.next() % n
    }
    pub fn usize(&mut self, n: usize) -> usize {
        self.below(n as u64) as usize
    }
    pub fn range(&mut self, lo: i64, hi_incl: i64) -> i64 {
        lo + self.below((hi_incl - lo + 1) as u64) as i64
    }
    pub fn chance(&mut self, num: u64, den: u64) -> bool {
        self.below(den) < num
    }
    /// Uniform f64 in [0,1).
    pub fn unit(&mut self) -> f64 {
        (self.next() >> 11) as f64 / (1u64 << 53) as f64
    }
    pub fn pick<'a, T>(&mut self, xs: &'a [T]) -> &'a T {
        &xs[self.usize(xs.len())]
    }
    pub fn shuffle<T>(&mut self, xs: &mut [T]) {
        for i in (1..xs.len()).rev() {
            let j = self.usize(i + 1);
            xs.swap(i, j);
        }
    }
}

// ------------------------------------------------------------------------------------------------
// f32 helpers

pub fn ulp32(x: f32) -> f32 {
    let x = x.abs();
    if !x.is_finite() {
        return f32::INFINITY;
    }
    if x < f32::MIN_POSITIVE {
        return f32::from_bits(1);
    }
    let b = x.to_bits();
    f32::from_bits(b + 1) - x
}

pub fn next_up(x: f32) -> f32 {
    if x.is_nan() || x == f32::INFINITY {
        return x;
    }
    if x == 0.0 {
        return f32::from_bits(1);
    }
    let b = x.to_bits();
    if x > 0.0 {
        f32::from_bits(b + 1)
    } else {
        f32::from_bits(b - 1)
    }
}

pub fn next_down(x: f32) -> f32 {
    -next_up(-x)
}

/// Bit equality that identifies +0.0 and -0.0 (DESIGN §3.2).
pub fn same_f32(a: f32, b: f32) -> bool {
    a.to_bits() == b.to_bits() || (a == 0.0 && b == 0.0)
}
pub fn same_f64(a: f64, b: f64) -> bool {
    a.to_bits() == b.to_bits() || (a == 0.0 && b == 0.0)
}

/// Distance in units of f32 ulps between two finite floats (saturating).
pub fn ulp_dist32(a: f32, b: f32) -> u64 {
    fn key(x: f32) -> i64 {
        let b = x.to_bits() as i64;
        if b & 0x8000_0000 != 0 {
            -(b & 0x7fff_ffff)
        } else {
            b
        }
    }
    (key(a) - key(b)).unsigned_abs()
}

// ------------------------------------------------------------------------------------------------
// JSON

#[derive(Clone, Debug, PartialEq)]
pub enum J {
    Null,
    B(bool),
    I(i64),
    U(u64),
    F(f64),
    S(String),
    A(Vec<J>),
    O(Vec<(String, J)>),
}

impl J {
    pub fn s(x: impl Into<String>) -> J {
        J::S(x.into())
    }
    pub fn obj(kv: Vec<(&str, J)>) -> J {
        J::O(kv.into_iter().map(|(k, v)| (k.to_string(), v)).collect())
    }
    pub fn arr<T: Into<J>>(xs: impl IntoIterator<Item = T>) -> J {
        J::A(xs.into_iter().map(|x| x.into()).collect())
    }
    pub fn get(&self, key: &str) -> Option<&J> {
        match self {
            J::O(kv) => kv.iter().find(|(k, _)| k == key).map(|(_, v)| v),
            _ => None,
        }
    }
    pub fn as_u64(&self) -> Option<u64> {
        match self {
            J::U(u) => Some(*u),
            J::I(i) if *i >= 0 => Some(*i as u64),
            J::F(f) if *f >= 0.0 && f.fract() == 0.0 => Some(*f as u64),
            _ => None,
        }
    }
    pub fn as_str(&self) -> Option<&str> {
        match self {
            J::S(s) => Some(s),
            _ => None,
        }
    }
    pub fn render(&self) -> String {
        let mut s = String::new();
        self.write(&mut s);
        s
    }
    fn write(&self, out: &mut String) {
        match self {
            J::Null => out.push_str("null"),
            J::B(b) => {
                let _ = write!(out, "{b}");
            }
            J::I(i) => {
                let _ = write!(out, "{i}");
            }
            J::U(u) => {
                let _ = write!(out, "{u}");
            }
            J::F(f) => {
                if f.is_finite() {
                    let _ = write!(out, "{f:?}");
                } else {
                    let _ = write!(out, "\"{f}\"");
                }
            }
            J::S(s) => {
                out.push('"');
                for c in s.chars() {
                    match c {
                        '"' => out.push_str("\\\""),
                        '\\' => out.push_str("\\\\"),
                        '\n' => out.push_str("\\n"),
                        '\t' => out.push_str("\\t"),
                        '\r' => out.push_str("\\r"),
                        c if (c as u32) < 0x20 => {
                            let _ = write!(out, "\\u{:04x}", c as u32);
                        }
                        c => out.push(c),
                    }
                }
                out.push('"');
            }
            J::A(xs) => {
                out.push('[');
                for (i, x) in xs.iter().enumerate() {
                    if i > 0 {
                        out.push(',');
                    }
                    x.write(out);
                }
                out.push(']');
            }
            J::O(kv) => {
                out.push('{');
                for (i, (k, v)) in kv.iter().enumerate() {
                    if i > 0 {
                        out.push(',');
                    }
                    J::S(k.clone()).write(out);
                    out.push(':');
                    v.write(out);
                }
                out.push('}');
            }
        }
    }

    /// Minimal parser (objects, arrays, strings, numbers, literals) for replay files.
    pub fn parse(text: &str) -> Result<J, String> {
        let b = text.as_bytes();
        let mut i = 0usize;
        let v = parse_value(b, &mut i)?;
        skip_ws(b, &mut i);
        if i != b.len() {
            return Err(format!("trailing data at {i}"));
        }
        Ok(v)
    }
}

fn skip_ws(b: &[u8], i: &mut usize) {
    while *i < b.len() && (b[*i] as char).is_ascii_whitespace() {
        *i += 1;
    }
}

fn parse_value(b: &[u8], i: &mut usize) -> Result<J, String> {
    skip_ws(b, i);
    if *i >= b.len() {
        return Err("eof".into());
    }
    match b[*i] {
        b'{' => {
            *i += 1;
            let mut kv = Vec::new();
            loop {
                skip_ws(b, i);
                if b.get(*i) == Some(&b'}') {
                    *i += 1;
                    break;
                }
                let k = match parse_value(b, i)? {
                    J::S(s) => s,
                    _ => return Err("key".into()),
                };
                skip_ws(b, i);
                if b.get(*i) != Some(&b':') {
                    return Err("colon".into());
                }
                *i += 1;
                let v = parse_value(b, i)?;
                kv.push((k, v));
                skip_ws(b, i);
                match b.get(*i) {
                    Some(b',') => *i += 1,
                    Some(b'}') => {
                        *i += 1;
                        break;
                    }
                    _ => return Err("obj sep".into()),
                }
            }
            Ok(J::O(kv))
        }
        b'[' => {
            *i += 1;
            let mut xs = Vec::new();
            loop {
                skip_ws(b, i);
                if b.get(*i) == Some(&b']') {
                    *i += 1;
                    break;
                }
                xs.push(parse_value(b, i)?);
                skip_ws(b, i);
                match b.get(*i) {
                    Some(b',') => *i += 1,
                    Some(b']') => {
                        *i += 1;
                        break;
                    }
                    _ => return Err("arr sep".into()),
                }
            }
            Ok(J::A(xs))
        }
        b'"' => {
            *i += 1;
            let mut s = Vec::new();
            while *i < b.len() && b[*i] != b'"' {
                if b[*i] == b'\\' {
                    *i += 1;
                    match b.get(*i) {
                        Some(b'n') => s.push(b'\n'),
                        Some(b't') => s.push(b'\t'),
                        Some(b'r') => s.push(b'\r'),
                        Some(b'u') => {
                            let h = std::str::from_utf8(&b[*i + 1..*i + 5]).map_err(|e| e.to_string())?;
                            let c = u32::from_str_radix(h, 16).map_err(|e| e.to_string())?;
                            let mut buf = [0u8; 4];
                            s.extend_from_slice(
                                char::from_u32(c).unwrap_or('?').encode_utf8(&mut buf).as_bytes(),
                            );
                            *i += 4;
                        }
                        Some(c) => s.push(*c),
                        None => return Err("escape".into()),
                    }
                } else {
                    s.push(b[*i]);
                }
                *i += 1;
            }
            *i += 1;
            Ok(J::S(String::from_utf8_lossy(&s).into_owned()))
        }
        b't' if b[*i..].starts_with(b"true") => {
            *i += 4;
            Ok(J::B(true))
        }
        b'f' if b[*i..].starts_with(b"false") => {
            *i += 5;
            Ok(J::B(false))
        }
        b'n' if b[*i..].starts_with(b"null") => {
            *i += 4;
            Ok(J::Null)
        }
        _ => {
            let st = *i;
            while *i < b.len() && matches!(b[*i], b'-' | b'+' | b'.' | b'e' | b'E' | b'0'..=b'9') {
                *i += 1;
            }
            let t = std::str::from_utf8(&b[st..*i]).unwrap();
            if let Ok(u) = t.parse::<u64>() {
                Ok(J::U(u))
            } else if let Ok(n) = t.parse::<i64>() {
                Ok(J::I(n))
            } else {
                t.parse::<f64>().map(J::F).map_err(|e| format!("number {t:?}: {e}"))
            }
        }
    }
}

impl From<bool> for J {
    fn from(x: bool) -> J {
        J::B(x)
    }
}
impl From<u64> for J {
    fn from(x: u64) -> J {
        J::U(x)
    }
}
impl From<u32> for J {
    fn from(x: u32) -> J {
        J::U(x as u64)
    }
}
impl From<usize> for J {
    fn from(x: usize) -> J {
        J::U(x as u64)
    }
}
impl From<i64> for J {
    fn from(x: i64) -> J {
        J::I(x)
    }
}
impl From<i32> for J {
    fn from(x: i32) -> J {
        J::I(x as i64)
    }
}
impl From<f64> for J {
    fn from(x: f64) -> J {
        J::F(x)
    }
}
impl From<f32> for J {
    fn from(x: f32) -> J {
        J::F(x as f64)
    }
}
impl From<&str> for J {
    fn from(x: &str) -> J {
        J::S(x.to_string())
    }
}
impl From<String> for J {
    fn from(x: String) -> J {
        J::S(x)
    }
}

// ------------------------------------------------------------------------------------------------
// Run context

/// Indices of the cases of `stream` that worker `w` of `nw` executes: a strided share of
/// `0..n` normally, exactly the recorded case in replay mode.
pub fn my_cases(replay: Option<(u64, u64)>, stream: u64, n: u64, w: usize, nw: usize) -> Vec<u64> {
    match replay {
        Some((s, i)) => {
            if s == stream && w == 0 {
                vec![i]
            } else {
                vec![]
            }
        }
        None => (0..n).filter(|i| (*i as usize) % nw == w).collect(),
    }
}

thread_local! {
    static LAST_PANIC: std::cell::RefCell<String> = std::cell::RefCell::new(String::new());
}

/// Installs a panic hook that records message and location per thread (and stays quiet unless
/// VERIF_PANIC_TRACE is set).
pub fn install_panic_hook() {
    let loud = std::env::var("VERIF_PANIC_TRACE").is_ok();
    std::panic::set_hook(Box::new(move |info| {
        let msg = if let Some(s) = info.payload().downcast_ref::<&str>() {
            s.to_string()
        } else if let Some(s) = info.payload().downcast_ref::<String>() {
            s.clone()
        } else {
            "<non-string panic>".to_string()
        };
        let loc = info.location().map(|l| format!("{}:{}", l.file(), l.line())).unwrap_or_default();
        if loud {
            eprintln!("panic: {msg} @ {loc}");
        }
        LAST_PANIC.with(|p| *p.borrow_mut() = format!("{msg} @ {loc}"));
    }));
}

pub fn last_panic() -> String {
    LAST_PANIC.with(|p| p.borrow().clone())
}

/// Runs `f` and converts a panic into `Err("message @ file:line")`.
pub fn catch<T>(f: impl FnOnce() -> T) -> Result<T, String> {
    match std::panic::catch_unwind(std::panic::AssertUnwindSafe(f)) {
        Ok(v) => Ok(v),
        Err(_) => Err(last_panic()),
    }
}

/// Runs one case; a panic escaping from the code under test is reported as a violation of the
/// property being checked (the timeline/animator did not produce the required result).
pub fn guarded(acc: &mut Acc, prop: &str, stream: u64, index: u64, f: impl FnOnce(&mut Acc)) {
    let r = catch(|| f(acc));
    if let Err(msg) = r {
        let src = if msg.contains("/verif/") || msg.contains(" src/") { "harness" } else { "code-under-test" };
        acc.violation(
            format!("{prop}:panic:{src}"),
            format!("panic during case stream={stream} index={index}: {msg}"),
            case_json(stream, index, vec![("panic", J::s(msg.clone()))]),
        );
    }
}

pub fn case_json(stream: u64, index: u64, mut rest: Vec<(&str, J)>) -> J {
    let mut kv = vec![("stream", J::U(stream)), ("index", J::U(index))];
    kv.append(&mut rest);
    J::obj(kv)
}

/// Root of the verification tree (`VERIF_HOME`, set by `vcheck` to its own directory; default /verif).
pub fn verif_dir() -> String {
    std::env::var("VERIF_HOME").unwrap_or_else(|_| "/verif".to_string())
}

#[derive(Clone, Debug)]
pub struct Violation {
    /// Stable key describing *what* fails (used for matching KNOWN_FINDINGS and de-duplication).
    pub key: String,
    /// One-line description.
    pub what: String,
    /// Self-contained description of the case for the replay file.
    pub case: J,
}

/// Per-worker accumulator; merged at the end of a run.
#[derive(Default)]
pub struct Acc {
    pub evaluations: u64,
    pub sigs: BTreeSet<String>,
    pub samples: Vec<J>,
    pub violations: Vec<Violation>,
    pub counters: BTreeMap<String, u64>,
}

impl Acc {
    pub fn new() -> Self {
        Self::default()
    }
    pub fn eval(&mut self) {
        self.evaluations += 1;
    }
    pub fn evals(&mut self, n: u64) {
        self.evaluations += n;
    }
    pub fn sig(&mut self, s: impl Into<String>) {
        let s = s.into();
        if !self.sigs.contains(&s) {
            self.sigs.insert(s);
        }
    }
    pub fn count(&mut self, k: &str, n: u64) {
        *self.counters.entry(k.to_string()).or_insert(0) += n;
    }
    pub fn sample(&mut self, max: usize, f: impl FnOnce() -> J) {
        if self.samples.len() < max {
            self.samples.push(f());
        }
    }
    pub fn violation(&mut self, key: impl Into<String>, what: impl Into<String>, case: J) {
        let key = key.into();
        // keep at most 3 witnesses per key and 40 overall per worker
        let same = self.violations.iter().filter(|v| v.key == key).count();
        if same < 3 && self.violations.len() < 400 {
            self.violations.push(Violation { key, what: what.into(), case });
        }
        self.count("violating_evaluations", 1);
    }
    pub fn merge(&mut self, o: Acc) {
        self.evaluations += o.evaluations;
        self.sigs.extend(o.sigs);
        for s in o.samples {
            if self.samples.len() < 12 {
                self.samples.push(s);
            }
        }
        self.violations.extend(o.violations);
        for (k, v) in o.counters {
            *self.counters.entry(k).or_insert(0) += v;
        }
    }
}

pub struct Run {
    pub id: String,
    pub tier: String,
    pub seed: u64,
    pub start: Instant,
    pub acc: Acc,
    pub rule: String,
    pub assumptions: Vec<String>,
    pub exhaustive: Option<bool>,
    pub extra: Vec<(String, J)>,
    /// Minimum number of distinct non-trivial signatures for the run to count as conclusive.
    pub min_sigs: usize,
    pub replay: Option<J>,
    pub inconclusive: Vec<String>,
}

impl Run {
    pub fn thorough(&self) -> bool {
        self.tier == "thorough"
    }
    pub fn workers(&self) -> usize {
        std::env::var("VERIF_JOBS").ok().and_then(|s| s.parse().ok()).unwrap_or_else(|| {
            std::thread::available_parallelism().map(|n| n.get()).unwrap_or(8)
        })
    }

    /// Runs `f(worker_index, n_workers, &mut Acc)` on all workers and merges.
    pub fn parallel<F>(&mut self, f: F)
    where
        F: Fn(usize, usize, &mut Acc) + Sync,
    {
        let n = if self.replay.is_some() { 1 } else { self.workers() };
        let accs: Vec<Acc> = std::thread::scope(|s| {
            let hs: Vec<_> = (0..n)
                .map(|w| {
                    let f = &f;
                    std::thread::Builder::new()
                        .stack_size(64 << 20)
                        .spawn_scoped(s, move || {
                            let mut a = Acc::new();
                            f(w, n, &mut a);
                            a
                        })
                        .unwrap()
                })
                .collect();
            hs.into_iter().map(|h| h.join().expect("worker panicked")).collect()
        });
        for a in accs {
            self.acc.merge(a);
        }
    }

    /// In replay mode: the (stream, index) of the single case to re-execute.
    pub fn replay_case(&self) -> Option<(u64, u64)> {
        let c = self.replay.as_ref()?.get("case")?;
        Some((c.get("stream")?.as_u64()?, c.get("index")?.as_u64()?))
    }

    pub fn known_findings(&self) -> Vec<(String, String)> {
        // lines: "finding: property=<id> key=<key> <text>"
        let mut out = Vec::new();
        if let Ok(t) = std::fs::read_to_string(format!("{}/KNOWN_FINDINGS.txt", verif_dir())) {
            for l in t.lines() {
                let l = l.trim();
                if let Some(rest) = l.strip_prefix("finding:") {
                    let rest = rest.trim();
                    let mut it = rest.splitn(3, ' ');
                    let p = it.next().unwrap_or("");
                    let k = it.next().unwrap_or("");
                    let txt = it.next().unwrap_or("");
                    if p == format!("property={}", self.id) {
                        if let Some(k) = k.strip_prefix("key=") {
                            out.push((k.to_string(), txt.to_string()));
                        }
                    }
                }
            }
        }
        out
    }

    /// Writes evidence, prints verdict lines, returns the process exit code.
    pub fn finish(mut self) -> i32 {
        let known = self.known_findings();
        let mut code = 0;
        let mut printed_known: BTreeSet<String> = BTreeSet::new();
        let mut n_viol = 0usize;
        let _ = std::fs::create_dir_all(format!("{}/replays", verif_dir()));
        let mut seen_keys: BTreeMap<String, usize> = BTreeMap::new();
        let vs = std::mem::take(&mut self.acc.violations);
        for v in vs.iter() {
            if let Some((k, txt)) = known.iter().find(|(k, _)| *k == v.key) {
                if printed_known.insert(k.clone()) {
                    println!("KNOWN-FINDING: property={} key={} {}", self.id, k, txt);
                }
                continue;
            }
            let c = seen_keys.entry(v.key.clone()).or_insert(0);
            *c += 1;
            if *c > 2 || n_viol >= 12 {
                continue;
            }
            n_viol += 1;
            let path = format!("{}/replays/{}-{}-{}{}.json", verif_dir(), self.id, self.tier, n_viol, if self.replay.is_some() { "-replayed" } else { "" });
            let doc = J::obj(vec![
                ("property_id", J::s(self.id.clone())),
                ("tier", J::s(self.tier.clone())),
                ("seed", J::U(self.seed)),
                ("key", J::s(v.key.clone())),
                ("what", J::s(v.what.clone())),
                ("case", v.case.clone()),
            ]);
            let _ = std::fs::write(&path, doc.render() + "\n");
            println!("VIOLATION property={} replay={}", self.id, path);
            println!("  what: {}", v.what);
            code = 1;
        }
        let distinct = self.acc.sigs.len();
        if code == 0 && self.replay.is_none() {
            if distinct < self.min_sigs.max(2) {
                self.inconclusive.push(format!(
                    "only {distinct} distinct non-trivial cases observed (minimum {})",
                    self.min_sigs.max(2)
                ));
            }
            if self.acc.evaluations == 0 {
                self.inconclusive.push("no evaluations".into());
            }
        }
        if code == 0 && !self.inconclusive.is_empty() {
            println!("INCONCLUSIVE property={} reason={}", self.id, self.inconclusive.join("; "));
            code = 2;
        }
        // evidence
        if self.replay.is_none() {
            let mut cov: Vec<(String, J)> = vec![
                ("evaluations".into(), J::U(self.acc.evaluations)),
                ("distinct_nontrivial".into(), J::U(distinct as u64)),
                ("rule".into(), J::s(self.rule.clone())),
                ("samples".into(), J::A(self.acc.samples.clone())),
            ];
            if let Some(e) = self.exhaustive {
                cov.push(("exhaustive".into(), J::B(e)));
            }
            let sig_list: Vec<J> = self.acc.sigs.iter().take(40).map(|s| J::s(s.clone())).collect();
            cov.push(("signature_examples".into(), J::A(sig_list)));
            cov.push((
                "counters".into(),
                J::O(self.acc.counters.iter().map(|(k, v)| (k.clone(), J::U(*v))).collect()),
            ));
            cov.extend(self.extra.clone());
            let doc = J::O(vec![
                ("property_id".into(), J::s(self.id.clone())),
                ("tier".into(), J::s(self.tier.clone())),
                ("seed".into(), J::U(self.seed)),
                ("level".into(), J::s("exploration")),
                ("coverage".into(), J::O(cov)),
                (
                    "assumptions".into(),
                    J::A(self.assumptions.iter().map(|s| J::s(s.clone())).collect()),
                ),
                ("wall_s".into(), J::F((self.start.elapsed().as_secs_f64() * 1000.0).round() / 1000.0)),
                ("violations".into(), J::U(n_viol as u64)),
                ("known_findings_matched".into(), J::U(printed_known.len() as u64)),
                ("verdict".into(), J::s(match code { 0 => "held", 1 => "violated", _ => "inconclusive" })),
            ]);
            let _ = std::fs::create_dir_all(format!("{}/evidence", verif_dir()));
            let path = format!("{}/evidence/{}.json", verif_dir(), self.id);
            std::fs::write(&path, doc.render() + "\n").expect("write evidence");
        }
        println!(
            "{} {} seed={} evaluations={} distinct_nontrivial={} violations={} known={} wall={:.1}s -> {}",
            self.id,
            self.tier,
            self.seed,
            self.acc.evaluations,
            distinct,
            n_viol,
            printed_known.len(),
            self.start.elapsed().as_secs_f64(),
            match code { 0 => "HELD", 1 => "VIOLATED", _ => "INCONCLUSIVE" }
        );
        code
    }
}
