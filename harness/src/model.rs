//! Reference models (DESIGN §3.1): independent re-statements of the documented semantics, written
//! for obviousness in f64. They share no code with mina. The easing is an uninterpreted function
//! (the model calls `Eas::calc` at its own x).

use crate::shapes::Kind;
use crate::spec::{Eas, Rep, TlSpec};

// ------------------------------------------------------------------------------------------------
// M-scale: time -> phase, position

#[derive(Clone, Copy, Debug, PartialEq, Eq, Hash)]
pub enum Phase {
    NotStarted,
    Active,
    Ended,
}

#[derive(Clone, Copy, Debug, PartialEq)]
pub struct Pos {
    pub phase: Phase,
    /// position in [0,1]
    pub p: f64,
    /// cycle index (after the end-of-pass adjustment)
    pub k: u64,
    pub repeating: bool,
    pub reverse_pass: bool,
    /// whether a substituted start value is in force
    pub subst: bool,
    /// fraction of the cycle elapsed (0..=1)
    pub rho: f64,
}

impl Pos {
    pub fn class(&self) -> &'static str {
        match self.phase {
            Phase::NotStarted => "not-started",
            Phase::Ended => "ended",
            Phase::Active => match (self.repeating, self.reverse_pass) {
                (false, false) => "first-fwd",
                (false, true) => "first-rev",
                (true, false) => "later-fwd",
                (true, true) => "later-rev",
            },
        }
    }
}

pub fn mscale(cycle: f64, delay: f64, rep: Rep, reverse: bool, t: f64) -> Pos {
    let e = t - delay;
    if e < 0.0 {
        return Pos { phase: Phase::NotStarted, p: 0.0, k: 0, repeating: false, reverse_pass: false, subst: true, rho: 0.0 };
    }
    if let Some(n) = rep.cycles() {
        let total = cycle * n as f64;
        if e > total {
            return Pos {
                phase: Phase::Ended,
                p: if reverse { 0.0 } else { 1.0 },
                k: n - 1,
                repeating: n > 1,
                reverse_pass: reverse,
                subst: false,
                rho: 1.0,
            };
        }
    }
    let mut k = (e / cycle).floor();
    let mut r = e - k * cycle;
    if r < 0.0 {
        // floating point guard; cannot happen with exact inputs
        k -= 1.0;
        r += cycle;
    }
    if r == 0.0 && k >= 1.0 {
        // the end of a pass shows 100 % before wrapping
        k -= 1.0;
        r = cycle;
    }
    let repeating = k >= 1.0;
    let rho = r / cycle;
    let (p, reverse_pass) = if !reverse {
        (rho, false)
    } else if rho <= 0.5 {
        (2.0 * rho, false)
    } else {
        (2.0 * (1.0 - rho), true)
    };
    Pos { phase: Phase::Active, p, k: k as u64, repeating, reverse_pass, subst: !repeating && !reverse_pass, rho }
}

pub fn mscale_spec(spec: &TlSpec, t: f64) -> Pos {
    mscale(spec.cycle as f64, spec.delay as f64, spec.repeat, spec.reverse, t)
}

// ------------------------------------------------------------------------------------------------
// M-prop: per-property CSS-style interpolation

#[derive(Clone, Copy, Debug, PartialEq, Eq, Hash)]
pub enum EasSrc {
    Default,
    Carried,
    Own,
}

#[derive(Clone, Debug)]
pub struct Frame {
    pub pos: f64,
    pub val: f64,
    pub eas: Eas,
    pub src: EasSrc,
    pub synthetic: bool,
    /// index into spec.kfs (insertion order) for real frames
    pub kf: Option<usize>,
}

/// The frame list of one property: defining keyframes in position order (stable with respect to
/// insertion order), easing carry-over, synthetic 0 % and 100 % frames.
pub fn frames(spec: &TlSpec, field: usize) -> Vec<Frame> {
    let default_eas = spec.default_easing.clone().unwrap_or(Eas::Builtin(0));
    let mut order: Vec<usize> = (0..spec.kfs.len()).collect();
    // stable sort by position
    order.sort_by(|a, b| spec.kfs[*a].pos.total_cmp(&spec.kfs[*b].pos));
    let mut out: Vec<Frame> = Vec::new();
    let mut cur = default_eas.clone();
    let mut cur_src = EasSrc::Default;
    for i in order {
        let kf = &spec.kfs[i];
        let Some(v) = kf.vals.get(field).copied().flatten() else { continue };
        let src;
        if let Some(e) = &kf.easing {
            cur = e.clone();
            cur_src = EasSrc::Carried;
            src = EasSrc::Own;
        } else {
            src = cur_src;
        }
        out.push(Frame { pos: kf.pos as f64, val: v, eas: cur.clone(), src, synthetic: false, kf: Some(i) });
    }
    if out.is_empty() {
        return out;
    }
    if out[0].pos > 0.0 {
        out.insert(
            0,
            Frame { pos: 0.0, val: 0.0, eas: default_eas, src: EasSrc::Default, synthetic: true, kf: None },
        );
    }
    let last = out.last().unwrap().clone();
    if last.pos < 1.0 {
        out.push(Frame { pos: 1.0, val: last.val, eas: last.eas.clone(), src: last.src, synthetic: true, kf: None });
    }
    out
}

#[derive(Clone, Copy, Debug, PartialEq, Eq, Hash)]
pub enum SegKind {
    Synthetic0,
    Interior,
    TrailingHold,
    AtEnd,
}

#[derive(Clone, Debug)]
pub struct PropEval {
    /// real-valued result before any rounding to the property type
    pub v: f64,
    pub a: f64,
    pub b: f64,
    pub x: f64,
    pub y: f64,
    pub seg: SegKind,
    pub src: EasSrc,
    pub eas: Eas,
    /// p coincides with a position that more than one frame of this property has
    pub ambiguous: bool,
    /// p coincides with a frame position
    pub at_frame: bool,
    /// p strictly inside a segment whose ends differ
    pub nontrivial: bool,
    pub seg_index: usize,
    pub n_frames: usize,
}

/// Value of property `field` at exact position `p`; `subst` = a substituted start value that is
/// in force. `None` = no keyframe defines the property (target untouched).
pub fn mprop(spec: &TlSpec, field: usize, p: f64, subst: Option<f64>) -> Option<PropEval> {
    let mut fr = frames(spec, field);
    if fr.is_empty() {
        return None;
    }
    if let Some(v) = subst {
        fr[0].val = v;
    }
    let p = p.clamp(0.0, 1.0);
    let same = fr.iter().filter(|f| f.pos == p).count();
    let ambiguous = same > 1;
    let at_frame = same >= 1;
    // last i with pos_i <= p
    let mut i = 0;
    for (j, f) in fr.iter().enumerate() {
        if f.pos <= p {
            i = j;
        }
    }
    let n = fr.len();
    if i == n - 1 {
        let f = &fr[i];
        return Some(PropEval {
            v: f.val, a: f.val, b: f.val, x: 0.0, y: 0.0, seg: SegKind::AtEnd, src: f.src, eas: f.eas.clone(),
            ambiguous, at_frame, nontrivial: false, seg_index: i, n_frames: n,
        });
    }
    let (f0, f1) = (&fr[i], &fr[i + 1]);
    let x = (p - f0.pos) / (f1.pos - f0.pos);
    let y = f0.eas.calc(x as f32) as f64;
    let v = f0.val + y * (f1.val - f0.val);
    let seg = if f0.synthetic {
        SegKind::Synthetic0
    } else if f1.synthetic {
        SegKind::TrailingHold
    } else {
        SegKind::Interior
    };
    Some(PropEval {
        v, a: f0.val, b: f1.val, x, y, seg, src: f0.src, eas: f0.eas.clone(), ambiguous, at_frame,
        nontrivial: f0.val != f1.val && p > f0.pos && p < f1.pos, seg_index: i, n_frames: n,
    })
}

/// Absolute tolerance for a float-typed result of interpolating a..b (DESIGN §3.2).
pub fn tol(a: f64, b: f64) -> f64 {
    (a.abs() + b.abs()) * 2.0e-5 + 1.0e-9
}

/// Does the observed value agree with the model's real-valued result for a property of `kind`?
pub fn agrees(kind: Kind, observed: f64, e: &PropEval) -> bool {
    let t = tol(e.a, e.b);
    if kind.is_int() {
        // integers: nearest, saturating at the bounds of the type
        let (mn, mx) = kind.range();
        let lo = (e.v - t - 1e-3).round().clamp(mn, mx);
        let hi = (e.v + t + 1e-3).round().clamp(mn, mx);
        observed >= lo && observed <= hi
    } else {
        (observed - e.v).abs() <= t
    }
}

/// Exact expected value when the model result is exactly a frame value (C02): integers exact,
/// floats within a few ulps of f32.
pub fn agrees_exact(kind: Kind, observed: f64, v: f64) -> bool {
    if kind.is_int() {
        observed == v
    } else {
        let u = crate::util::ulp32(v as f32) as f64;
        (observed - v).abs() <= 4.0 * u
    }
}
