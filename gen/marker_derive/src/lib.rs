//! A do-nothing derive whose only purpose is to register the bare-path helper attribute `#[tagged]`,
//! so that generated C17 structs can carry a single-segment path attribute that is *not* `#[animate]`
//! (the way fields in real code carry helper attributes of other derives next to `#[animate]`).
use proc_macro::TokenStream;

#[proc_macro_derive(Marker, attributes(tagged))]
pub fn derive_marker(_input: TokenStream) -> TokenStream {
    TokenStream::new()
}
