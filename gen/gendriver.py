"""Generators and drivers for the generated-program families C15 (timeline!), C16 (animator!) and
C17 (derive(Animate)). Python (stdlib only) draws sentences / blocks / struct shapes from the macro
grammars, writes a crate under /verif/build/gen, has cargo compile it for real against /repo's
working tree, and runs it; the Rust side (mina_verif::genrt) compares each macro-built object with
its builder twin and writes the evidence. The "rejected at compile time" clauses are observed by
compiling a second crate with `cargo check --message-format=json` and attributing every error
diagnostic to the source line of the ill-formed input.
"""
import json, os, random, shutil, struct, subprocess, sys

VERIF = os.path.dirname(os.path.dirname(os.path.abspath(__file__)))
TARGET = os.path.join(VERIF, "target")
GEN = os.path.join(VERIF, "build", "gen")
ENV = dict(os.environ, CARGO_TARGET_DIR=TARGET, CARGO_NET_OFFLINE="true", CARGO_TERM_COLOR="never", VERIF_HOME=VERIF)

EASINGS = ["Linear", "Ease", "In", "Out", "InOut", "InSine", "OutSine", "InOutSine", "InQuad", "OutQuad",
           "InOutQuad", "InCubic", "OutCubic", "InOutCubic", "InQuart", "OutQuart", "InOutQuart", "InQuint",
           "OutQuint", "InOutQuint", "InExpo", "OutExpo", "InOutExpo", "InCirc", "OutCirc", "InOutCirc",
           "InBack", "OutBack", "InOutBack"]


def f32(x):
    return struct.unpack("f", struct.pack("f", x))[0]


def f32lit(x):
    """Rust f32 literal that denotes exactly f32(x)."""
    return repr(float(f32(x))) + "f32" if "e" not in repr(float(f32(x))) else repr(float(f32(x))) + "f32"


def rs_str(s):
    return '"' + s.replace("\\", "\\\\").replace('"', '\\"') + '"'


def inconclusive(pid, reason):
    print(f"INCONCLUSIVE property={pid} reason={reason}")
    return 2


def write_crate(name, main_rs, with_verif=True):
    d = os.path.join(GEN, name)
    os.makedirs(os.path.join(d, "src"), exist_ok=True)
    deps = 'mina = { path = "/repo" }\nenum-map = "2.5.0"\n'
    deps += 'marker_derive = { path = "%s" }\n' % os.path.join(VERIF, "gen", "marker_derive")
    if with_verif:
        deps += 'mina_verif = { path = "%s" }\n' % os.path.join(VERIF, "harness")
    toml = f"""[package]
name = "{name}"
version = "0.0.0"
edition = "2021"
publish = false

[workspace]

[dependencies]
{deps}
[profile.release]
opt-level = 1
debug = 0
"""
    def put(path, text):
        old = None
        if os.path.exists(path):
            old = open(path).read()
        if old != text:
            open(path, "w").write(text)
    put(os.path.join(d, "Cargo.toml"), toml)
    put(os.path.join(d, "src", "main.rs"), main_rs)
    lock = os.path.join(d, "Cargo.lock")
    if not os.path.exists(lock):
        shutil.copy(os.path.join(VERIF, "harness", "Cargo.lock"), lock)
    return d


class CompilerHang(Exception):
    pass


# A proc macro under test that loops makes rustc run forever. Wall-clock time never decides a verdict: when the
# compiler has not finished after this many seconds the whole check is INCONCLUSIVE (normal builds take < 2 min).
COMPILE_WATCHDOG = int(os.environ.get("VERIF_COMPILE_WATCHDOG", "1500"))


def cargo(args, d):
    import signal
    p = subprocess.Popen(["cargo"] + args + ["--offline", "--manifest-path", os.path.join(d, "Cargo.toml")],
                         env=ENV, stdout=subprocess.PIPE, stderr=subprocess.PIPE, text=True, start_new_session=True)
    try:
        out, err = p.communicate(timeout=COMPILE_WATCHDOG)
    except subprocess.TimeoutExpired:
        try:
            os.killpg(p.pid, signal.SIGKILL)
        except OSError:
            pass
        p.communicate()
        raise CompilerHang(" ".join(args))
    return subprocess.CompletedProcess(p.args, p.returncode, out, err)


# the caller variables of PRELUDE with fixed values (the compile-fail crates do not link the harness)
REJECTS_PRELUDE = ("let (a, b, c, d) = (7.5f32, -3.25f32, 99u8, 41i32); "
                   "let (normalized_time, keyframe, builder, timeline, values, time) = (0.625f32, 3.5f32, -2.0f32, 9.0f32, 0.5f32, 4.25f32);")


def observe_rejects(name, header, lines):
    """lines: list of (text_of_statement, class, ill_formed). Each becomes its own fn on its own
    source line. Returns (ok, records) where records carry the number of error diagnostics
    attributed to each line."""
    src = [header]
    base = header.count("\n") + 1
    recs = []
    for i, (text, cls, ill) in enumerate(lines):
        src.append(f"#[allow(unused)] fn r{i}() {{ {REJECTS_PRELUDE} let _ = {text}; }}")
        recs.append({"line": base + i + 1, "class": cls, "text": text, "ill_formed": ill, "errors": 0})
    src.append("fn main() {}")
    main_rs = "\n".join(src) + "\n"
    d = write_crate(name, main_rs, with_verif=False)
    p = cargo(["check", "--message-format=json"], d)
    by_line = {r["line"]: r for r in recs}
    saw_any = False
    for l in p.stdout.splitlines():
        try:
            m = json.loads(l)
        except ValueError:
            continue
        if m.get("reason") != "compiler-message":
            continue
        msg = m["message"]
        if msg.get("level") != "error":
            continue
        saw_any = True
        hit = set()

        def walk(span):
            if span is None:
                return
            if span.get("file_name", "").endswith("src/main.rs"):
                for ln in range(span["line_start"], span["line_end"] + 1):
                    hit.add(ln)
            exp = span.get("expansion")
            if exp:
                walk(exp.get("span"))
        for sp in msg.get("spans", []):
            walk(sp)
        for ch in msg.get("children", []):
            for sp in ch.get("spans", []):
                walk(sp)
        for ln in hit:
            if ln in by_line:
                by_line[ln]["errors"] += 1
    # rustc must have run (exit status 101 with errors, or 0 without)
    ok = p.returncode in (0, 101) and (saw_any or p.returncode == 0)
    if not ok:
        sys.stdout.write(p.stderr[-3000:])
    path = os.path.join(GEN, name, "rejects.json")
    json.dump({"compiled": p.returncode == 0, "lines": recs}, open(path, "w"))
    return ok, path


def python_violation(pid, tier, seed, key, what, case, n_programs):
    """A violation decided on the python side (the generated program did not compile because the
    macro under test rejected / mis-expanded a well-formed input): writes replay + evidence."""
    os.makedirs(os.path.join(VERIF, "replays"), exist_ok=True)
    os.makedirs(os.path.join(VERIF, "evidence"), exist_ok=True)
    path = os.path.join(VERIF, "replays", f"{pid}-{tier}-build.json")
    json.dump({"property_id": pid, "tier": tier, "seed": seed, "key": key, "what": what, "case": case}, open(path, "w"))
    print(f"VIOLATION property={pid} replay={path}")
    print(f"  what: {what}")
    ev = {"property_id": pid, "tier": tier, "seed": seed, "level": "exploration",
          "coverage": {"evaluations": n_programs, "distinct_nontrivial": max(2, n_programs),
                       "rule": "generated programs compiled for real; this run stopped at compilation: a well-formed generated input was rejected or mis-expanded by the macro under test (see samples)",
                       "samples": [case]},
          "wall_s": 0.0, "violations": 1, "verdict": "violated"}
    json.dump(ev, open(os.path.join(VERIF, "evidence", f"{pid}.json"), "w"))
    return 1


def classify_build_failure(pid, d, main_rs, tier, seed, n_programs):
    """Maps compiler errors of the generated crate back to the generated case / shape they belong
    to (marker comments `/*CASE n*/`). An error inside a case is a violation of the property (the
    macro rejected or mis-expanded a well-formed input); anything else is inconclusive."""
    p = cargo(["build", "--release", "--message-format=json"], d)
    lines = main_rs.split("\n")
    hits = []
    for l in p.stdout.splitlines():
        try:
            m = json.loads(l)
        except ValueError:
            continue
        if m.get("reason") != "compiler-message" or m["message"].get("level") != "error":
            continue
        msg = m["message"]

        def walk(span, acc):
            if span is None:
                return
            if span.get("file_name", "").endswith("src/main.rs"):
                acc.append(span["line_start"])
            exp = span.get("expansion")
            if exp:
                walk(exp.get("span"), acc)
        lns = []
        for sp in msg.get("spans", []):
            walk(sp, lns)
        for ln in lns:
            # nearest marker at or above this line
            for k in range(ln - 1, max(-1, ln - 40), -1):
                if k < len(lines) and "/*CASE " in lines[k]:
                    idx = lines[k].split("/*CASE ")[1].split("*/")[0]
                    hits.append((idx, lines[k].strip()[:400], msg.get("message", "")[:300]))
                    break
    if not hits:
        return None
    idx, text, err = hits[0]
    return python_violation(pid, tier, seed, f"{pid.lower()}:well-formed-input-does-not-compile",
                            f"generated well-formed case {idx} does not compile: {err} :: {text}",
                            {"stream": 0, "index": int(idx) if idx.isdigit() else 0, "source_line": text, "compiler_error": err,
                             "further_cases_affected": sorted(set(h[0] for h in hits))[:20]}, n_programs)


def build_and_run(pid, name, main_rs, tier, seed, extra_args, n_programs=0):
    d = write_crate(name, main_rs)
    p = cargo(["build", "--release"], d)
    if p.returncode != 0:
        r = classify_build_failure(pid, d, main_rs, tier, seed, n_programs)
        if r is not None:
            return r
        sys.stdout.write(p.stderr[-6000:])
        return inconclusive(pid, "generated crate failed to compile against /repo working tree")
    exe = os.path.join(TARGET, "release", name)
    try:
        r = subprocess.run([exe, "--tier", tier, "--seed", str(seed)] + extra_args, env=ENV, timeout=6 * 3600)
    except subprocess.TimeoutExpired:
        return inconclusive(pid, "watchdog")
    if r.returncode not in (0, 1, 2):
        return inconclusive(pid, f"generated program exited with status {r.returncode}")
    return r.returncode


# ------------------------------------------------------------------------------------------------
# timeline! sentences (shared by C15 and C16)

V_DEF = """#[derive(Animate, Clone, Debug, Default, PartialEq)]
pub struct V { pub a: f32, pub b: f32, pub c: u8, pub d: i32 }
mina_verif::shape_impl!(V, V, VTimeline, [a: f32 = F32, b: f32 = F32, c: u8 = U8, d: i32 = I32], []);
// keyframe values are arbitrary expressions, not only literals
pub const K_F: f32 = 12.25;
pub const K_I: i32 = -77;
pub fn half(x: f32) -> f32 { x * 0.5 }
pub fn mix(a: f32, b: f32) -> f32 { a * 0.25 + b }
"""

# (literal text, numeric value of the literal, unit) ; value_macro = f32(f32(v)*mult)
DUR_LITS = [("5s", 5, "s"), ("2s", 2, "s"), ("1s", 1, "s"), ("12s", 12, "s"), ("0.25s", 0.25, "s"), ("1.5s", 1.5, "s"),
            ("0.1s", 0.1, "s"), ("2.5s", 2.5, "s"), ("3.0s", 3.0, "s"), ("250ms", 250, "ms"), ("100ms", 100, "ms"),
            ("1_500ms", 1500, "ms"), ("33ms", 33, "ms"), ("2000ms", 2000, "ms"), ("7.5ms", 7.5, "ms"), ("500ms", 500, "ms"),
            ("0.5s", 0.5, "s"), ("4_000ms", 4000, "ms"), ("1e3ms", 1000.0, "ms"), ("125ms", 125, "ms"),
            # literals whose number or value coincides with a builder default (1 s cycle, 0 s delay) in one unit only
            ("1ms", 1, "ms"), ("1.0ms", 1.0, "ms"), ("1000ms", 1000, "ms"), ("1.0s", 1.0, "s"), ("1e0s", 1.0, "s"),
            ("1_000ms", 1000, "ms"), ("10ms", 10, "ms"), ("60s", 60, "s"), ("0.001s", 0.001, "s"), ("1000s", 1000, "s")]
# delays may also be zero
DELAY_LITS = DUR_LITS + [("0s", 0, "s"), ("0ms", 0, "ms"), ("0.0s", 0.0, "s"), ("0.0ms", 0.0, "ms")]


def lit_values(v, unit):
    """(value the macro computes, Rust expression of the documented reading, exact?)"""
    if unit == "s":
        return f32(v), f32lit(v), True
    mac = f32(f32(v) * f32(0.001))
    reading = f32(f32(v) / 1000.0)
    return mac, f"({f32lit(v)} / 1000.0f32)", mac == reading


LOCALS_IN_VALUES = True


def gen_fields(rnd, allow_empty=True):
    fs = []
    for name in ["a", "b", "c", "d"]:
        if rnd.random() < 0.6:
            if name in ("a", "b"):
                v = rnd.choice(["-12.5", "3.0", "100.0", "0.0", "-250.75", "64.125", "7.0", "1000.0", "-0.5"])
                if rnd.random() < 0.15:
                    v = rnd.choice(["(1.5 + 2.0)", "K_F", "half(9.0)", "mix(1.0, 5.0)", "2.0 * 3.5", "-K_F", "{ 4.0 }", "f32::from(3u8)"])
                elif LOCALS_IN_VALUES and rnd.random() < 0.12:
                    # caller variables (defined next to every expansion site, see PRELUDE)
                    v = rnd.choice(["normalized_time * 8.0", "keyframe", "builder + timeline", "values", "time", "a", "b - 1.0"])
            elif name == "c":
                v = str(rnd.randint(40, 200))
                if rnd.random() < 0.15:
                    v = rnd.choice(["40 * 2", "(100 + 17)", "u8::MAX / 2", "90u8"])
            else:
                v = str(rnd.randint(-500, 500))
                if rnd.random() < 0.15:
                    v = rnd.choice(["K_I", "-(3 + 4)", "7 * 9", "K_I.abs()", "i32::from(5i8)"])
            fs.append((name, v))
    if not fs and not allow_empty:
        fs.append(("a", "42.0"))
    return fs


def gen_sentence(rnd, exact_only=False, allow_default_kf=False):
    """Like gen_sentence_raw, but a sentence with two keyframes at the same position (a value step) is only
    kept when all its numbers are exact: next to a step the one-ulp envelope of the inexact regime is void."""
    while True:
        s = gen_sentence_raw(rnd, exact_only, allow_default_kf)
        if s["exact"] or not any("same-position" in f for f in s["feats"]):
            return s


def gen_sentence_raw(rnd, exact_only=False, allow_default_kf=False):
    """Returns dict(text=macro arguments, twin=builder chain (without the type prefix), exact, feats)."""
    parts = []  # (kind, macro_text, builder_text)
    feats = []
    exact = True
    if rnd.random() < 0.85:
        while True:
            text, v, unit = rnd.choice(DUR_LITS)
            mac, reading, ex = lit_values(v, unit)
            if ex or not exact_only:
                break
        exact &= ex
        pre = "for " if rnd.random() < 0.3 else ""
        parts.append(("dur", pre + text, f".duration_seconds({reading})"))
        feats.append("dur=" + unit + ("+for" if pre else "") + ("" if isinstance(v, int) else "+float") + ("+_" if "_" in text else ""))
    if rnd.random() < 0.5:
        while True:
            text, v, unit = rnd.choice(DELAY_LITS)
            mac, reading, ex = lit_values(v, unit)
            if ex or not exact_only:
                break
        exact &= ex
        parts.append(("delay", "after " + text, f".delay_seconds({reading})"))
        feats.append("after=" + unit)
    rp = rnd.random()
    if rp < 0.35:
        n = rnd.choice([1, 2, 3, 7, 1000])
        nt = str(n)
        if rnd.random() < 0.15:
            # counts that need all 32 bits (not representable in f32), the largest count, underscored spellings
            n, nt = rnd.choice([(16777217, "16777217"), (123456789, "123_456_789"), (4294967295, "4294967295"), (33554433, "33_554_433"), (16777216, "16_777_216")])
        parts.append(("rep", f"{nt}x", f".repeat(Repeat::Times({n}))"))
        feats.append("Nx")
    elif rp < 0.5:
        parts.append(("rep", "infinite", ".repeat(Repeat::Infinite)"))
        feats.append("infinite")
    if rnd.random() < 0.35:
        parts.append(("rev", "reverse", ".reverse(true)"))
        feats.append("reverse")
    if rnd.random() < 0.6:
        e = rnd.choice(EASINGS)
        path = rnd.choice(["Easing::", "mina::Easing::", "mina::prelude::Easing::"]) + e
        parts.append(("ease", path, f".default_easing(Easing::{e})"))
        feats.append("easing")
    # keyframes at distinct positions
    nk = rnd.choice([0, 1, 2, 2, 3, 3, 4, 5])
    used = set()
    kfs = []
    last = None  # (macro position text, builder position text, exact?, tag) of the previous keyframe
    for _ in range(nk):
        k = rnd.random()
        if last is not None and rnd.random() < 0.12:
            # a second keyframe at the *same* position (a step): written order decides which value is
            # approached and which one the animation continues from
            pm, pb, ex, tag = last
            alias = {"from": "0%", "0%": "from", "to": "100%", "100%": "to"}.get(pm)
            if alias and rnd.random() < 0.5:
                pm = alias
                pb = "0.0f32" if pm in ("from", "0%") else "1.0f32"
            pos_m, pos_b, tag = pm, pb, tag + "+same-position"
        elif k < 0.25 and 0.0 not in used:
            used.add(0.0)
            pos_m, pos_b, ex, tag = "from", "0.0f32", True, "from"
        elif k < 0.5 and 1.0 not in used:
            used.add(1.0)
            pos_m, pos_b, ex, tag = "to", "1.0f32", True, "to"
        else:
            for _try in range(20):
                if rnd.random() < 0.7:
                    n = rnd.randint(1, 99)
                    lit = str(n)
                    tag = "pct-int"
                else:
                    n = rnd.choice([12.5, 33.3, 66.6, 0.5, 99.5, 50.0, 37.5, 80.25])
                    lit = repr(n)
                    tag = "pct-float"
                mac = f32(f32(n) * f32(0.01))
                reading = f32(f32(n) / 100.0)
                ex = mac == reading
                if (ex or not exact_only) and mac not in used and reading not in used:
                    break
            else:
                continue
            used.add(mac)
            used.add(reading)
            pos_m, pos_b = lit + "%", f"({f32lit(n)} / 100.0f32)"
        exact &= ex
        last = (pos_m, pos_b, ex, tag.replace("+same-position", ""))
        if allow_default_kf and rnd.random() < 0.3:
            kfs.append((pos_m + " default", f".keyframe(V::keyframe_from(&default_values, {pos_b}))", tag + "+default"))
        else:
            fs = gen_fields(rnd)
            body = "{ " + ", ".join(f"{n}: {v}" for n, v in fs) + " }" if fs else "{}"
            if fs and rnd.random() < 0.2:
                body = "{ " + ", ".join(f"{n}: {v}" for n, v in fs) + ", }"
            setters = "".join(f".{n}({v})" for n, v in fs)
            kfs.append((pos_m + " " + body, f".keyframe(V::keyframe({pos_b}){setters})", tag))
    for m, b, tag in kfs:
        parts.append(("kf", m, b))
        feats.append(tag)
    order = list(range(len(parts)))
    rnd.shuffle(order)
    shuffled = [parts[i] for i in order]
    timing_after_kf = any(p[0] != "kf" and any(q[0] == "kf" for q in shuffled[:i]) for i, p in enumerate(shuffled))
    text = " ".join(p[1] for p in shuffled)
    twin = "V::timeline()" + "".join(p[2] for p in shuffled)
    feats = sorted(set(feats)) + [f"kf={len(kfs)}", "interleaved" if timing_after_kf else "ordered"]
    return {"text": text, "twin": twin, "exact": exact, "feats": feats, "parts": shuffled}


RESPELL = {"2s": ["2.0s", "2000ms", "for 2s"], "1s": ["1.0s", "1000ms", "1e0s"], "5s": ["5.0s", "5_000ms"], "12s": ["12.0s", "12_000ms"],
           "0.25s": ["250ms"], "250ms": ["0.25s"], "1.5s": ["1_500ms", "1500ms"], "1_500ms": ["1.5s"], "500ms": ["0.5s"], "0.5s": ["500ms"],
           "2000ms": ["2s"], "4_000ms": ["4s", "4000ms"], "1e3ms": ["1s", "1000ms"], "125ms": ["0.125s"], "1000ms": ["1s"], "1.0s": ["1s"],
           "3.0s": ["3s", "3000ms"], "2.5s": ["2500ms"], "60s": ["60.0s", "60_000ms"], "1000s": ["1_000s"], "0s": ["0ms", "0.0s"], "0ms": ["0s"]}


def respell_options(rnd, prev, own):
    """A sentence with the options (duration, delay, repeat, reverse, easing) of `prev` — durations respelled with the
    same value where a spelling is known, in shuffled order — and the keyframes of `own`."""
    opts = [p for p in prev["parts"] if p[0] != "kf"]
    kfs = [p for p in own["parts"] if p[0] == "kf"]
    new_opts = []
    for kind, m, b in opts:
        if kind in ("dur", "delay"):
            pre = "after " if kind == "delay" else ("for " if m.startswith("for ") else "")
            lit = m[len(pre):] if m.startswith(pre) else m
            alts = [a for a in RESPELL.get(lit, []) if not (a.startswith("for ") and kind == "delay")]
            if alts and rnd.random() < 0.7:
                a = rnd.choice(alts)

                def macro_value(text):
                    text = text[4:] if text.startswith("for ") else text
                    unit = "ms" if text.endswith("ms") else "s"
                    return lit_values(float(text[:-len(unit)].replace("_", "")), unit)[0]
                # only spellings for which the macro's own arithmetic yields the very same f32
                if macro_value(a) == macro_value(lit):
                    m = (pre if not a.startswith("for ") else "") + a
        new_opts.append((kind, m, b))
    parts = new_opts + kfs
    rnd.shuffle(parts)
    text = " ".join(p[1] for p in parts)
    twin = "V::timeline()" + "".join(p[2] for p in parts)
    feats = sorted(set([f for f in prev["feats"] if not (f.startswith("kf=") or "pct" in f or f in ("from", "to", "interleaved", "ordered") or "same-position" in f or "default" in f)]
                       + [f for f in own["feats"] if (f.startswith("kf=") or "pct" in f or f in ("from", "to") or "same-position" in f or "default" in f)] + ["same-options-as-previous-member"]))
    return {"text": text, "twin": twin, "exact": prev["exact"] and own["exact"], "feats": feats, "parts": parts}


def gen_timeline_invocation(rnd, exact_only=False, allow_default_kf=False, allow_merge=True):
    """Returns (macro_args, twin_expr_yielding_MergedTimeline, single_twin_exprs, exact, sig)."""
    if allow_merge and rnd.random() < 0.25:
        n = rnd.choice([2, 2, 3])
        # members of a merged list only use numbers whose macro arithmetic coincides with the documented
        # reading: with independent timing per member there is no single (delay, cycle) to build the
        # inexact-regime envelope from (one-ulp number parsing is covered by the single sentences)
        ss = [gen_sentence(rnd, True, allow_default_kf) for _ in range(n)]
        # members are separate timelines even when they are configured alike: now and then a member repeats the
        # options of its predecessor (in another spelling / order where possible) with keyframes of its own
        if rnd.random() < 0.3:
            j = rnd.randrange(1, n)
            ss[j] = respell_options(rnd, ss[j - 1], gen_sentence(rnd, True, allow_default_kf))
        # an empty member would end the bracketed list early; make sure every member has a token
        for s in ss:
            if not s["text"].strip():
                s["text"], s["twin"] = "1s", "V::timeline().duration_seconds(1.0f32)"
        args = "[" + ", ".join(s["text"] for s in ss) + "]"
        twin = "MergedTimeline::of([" + ", ".join(s["twin"] + ".build()" for s in ss) + "])"
        feats = sorted(set(f for s in ss for f in s["feats"] if not f.startswith("kf="))) + [f"merged={n}"]
        return args, twin, True, all(s["exact"] for s in ss), "|".join(feats)
    s = gen_sentence(rnd, exact_only, allow_default_kf)
    return s["text"], s["twin"] + ".build()", False, s["exact"], "|".join(s["feats"])


C15_REJECTS = [
    # unknown suffix
    ("timeline!(V 2m from { a: 1.0 } to { a: 2.0 })", "unknown-suffix", True),
    ("timeline!(V 5sec to { a: 2.0 })", "unknown-suffix", True),
    ("timeline!(V from { a: 1.0 } 3h)", "unknown-suffix", True),
    ("timeline!(V 7xs to { b: 2.0 })", "unknown-suffix", True),
    ("timeline!(V for 2m to { b: 2.0 })", "unknown-suffix", True),
    ("timeline!(V 1s after 3min to { b: 2.0 })", "unknown-suffix", True),
    ("timeline!(V after 100us 1s to { b: 2.0 })", "unknown-suffix", True),
    ("timeline!(V 2S to { c: 90 })", "unknown-suffix", True),
    ("timeline!(V 1.5sec reverse to { c: 90 })", "unknown-suffix", True),
    ("timeline!(V [1s to { a: 1.0 }, 2m to { b: 1.0 }])", "unknown-suffix", True),
    ("timeline!(V 3X to { c: 90 })", "unknown-suffix", True),
    ("timeline!(V 10 to { c: 90 })", "unknown-suffix", True),
    # missing %
    ("timeline!(V 1s 50 { a: 1.0 })", "missing-percent", True),
    ("timeline!(V 1s from { a: 0.0 } 25 { a: 1.0 } to { a: 2.0 })", "missing-percent", True),
    ("timeline!(V 33.3 { a: 1.0 } 1s)", "missing-percent", True),
    ("timeline!(V [1s 50 { a: 1.0 }, 2s to { b: 1.0 }])", "missing-percent", True),
    # non-integer repeat
    ("timeline!(V 1s 2.5x to { a: 1.0 })", "non-integer-repeat", True),
    ("timeline!(V 1e1x 1s to { a: 1.0 })", "non-integer-repeat", True),
    ("timeline!(V to { a: 1.0 } 0.5x)", "non-integer-repeat", True),
    ("timeline!(V 1s 3.0x to { a: 1.0 })", "non-integer-repeat", True),
    # keyframe without braces
    ("timeline!(V 1s from a: 1.0)", "keyframe-without-braces", True),
    ("timeline!(V 1s to (a: 1.0))", "keyframe-without-braces", True),
    ("timeline!(V 1s 50% a: 1.0)", "keyframe-without-braces", True),
    ("timeline!(V 1s to [a: 1.0])", "keyframe-without-braces", True),
    ("timeline!(V 1s from 1.0 to 2.0)", "keyframe-without-braces", True),
    ("timeline!(V 1s to)", "keyframe-without-braces", True),
    # controls
    ("timeline!(V 2s from { a: 1.0 } to { a: 2.0 })", "control", False),
    ("timeline!(V 250ms after 1s 3x reverse Easing::OutQuad 50% { b: 2.0, c: 77 })", "control", False),
    ("timeline!(V [1s to { a: 1.0 }, 2s infinite to { b: 1.0 }])", "control", False),
    ("timeline!(V for 1_500ms 12.5% { d: -3 } infinite)", "control", False),
]


def c15(tier, seed, rest):
    rnd = random.Random(seed * 1000003 + (1 if tier == "thorough" else 0))
    n = 6000 if tier == "thorough" else 400
    cases = []
    for i in range(n):
        args, twin, merged, exact, sig = gen_timeline_invocation(rnd)
        mac = f"timeline!(V {args})" if merged else f"MergedTimeline::from(timeline!(V {args}))"
        bld = twin if merged else f"MergedTimeline::from({twin})"
        cases.append((i, f"timeline!(V {args})", twin, exact, sig, mac, bld))
    # rejects: the fixed list plus position/literal variants
    rejects = list(C15_REJECTS)
    extra = 400 if tier == "thorough" else 40
    for _ in range(extra):
        s = gen_sentence(rnd)
        toks = s["text"]
        bad, cls = rnd.choice([("2m", "unknown-suffix"), ("5sec", "unknown-suffix"), ("3h", "unknown-suffix"), ("7xs", "unknown-suffix"),
                               ("2.5x", "non-integer-repeat"), ("1e1x", "non-integer-repeat"), ("40 { a: 1.0 }", "missing-percent"),
                               ("from a: 1.0", "keyframe-without-braces"), ("45% b: 2.0", "keyframe-without-braces")])
        text = (bad + " " + toks) if rnd.random() < 0.5 else (toks + " " + bad)
        rejects.append((f"timeline!(V {text})", cls, True))
        if rnd.random() < 0.3:
            rejects.append((f"timeline!(V {toks})", "control", False))
    header = ("use mina::prelude::*;\n#[derive(Animate, Clone, Debug, Default, PartialEq)]\npub struct V { pub a: f32, pub b: f32, pub c: u8, pub d: i32 }\n"
              "pub const K_F: f32 = 12.25; pub const K_I: i32 = -77; pub fn half(x: f32) -> f32 { x * 0.5 } pub fn mix(a: f32, b: f32) -> f32 { a * 0.25 + b }\n")
    ok, rej_path = observe_rejects(f"c15_rejects_{tier}", header, rejects)
    if not ok:
        return inconclusive("C15", "compile-fail observation could not run")
    body = ["// generated by gen/gendriver.py — do not edit", "#![allow(unused_imports, unused_variables, clippy::all)]", "use mina::prelude::*;",
            "use mina_verif::genrt::*;", V_DEF, "fn cases() -> Vec<TlCase<V>> { vec!["]
    for (i, sent, twin, exact, sig, mac, bld) in cases:
        body.append(f"  /*CASE {i}*/ TlCase {{ idx: {i}, sentence: {rs_str(sent)}, twin: {rs_str(twin)}, exact: {str(exact).lower()}, sig: {rs_str(sig)}, "
                    f"mac: || {{ {PRELUDE} {mac} }}, bld: || {{ {PRELUDE} {bld} }} }},")
    body.append("] }")
    body.append("""
fn main() {
    let mut run = new_run("C15");
    run.rule = "timeline! sentences drawn from the macro grammar (duration s/ms with int/float/underscored literals and optional `for`, \
`after` delay, Nx / infinite, reverse, easing path, from/to/N% keyframes with random field subsets, arguments fully shuffled, bracketed \
merged lists of 2-3 members), each compiled for real next to the builder chain the documented reading prescribes; both timelines \
are compared on delay/cycle/duration/repeat and on all fields at ~140 times across all phases (bit-exact when the macro's f32 \
arithmetic coincides with the reading, otherwise within 4 ulp / 2e-3 relative); ill-formed sentences (unknown suffix, missing %, \
non-integer repeat, keyframe without braces) are compiled in a second crate and must each draw a compiler error; non-trivial = a \
sentence with at least one timing word or keyframe; distinct = set of grammar features used in the sentence".into();
    run.assumptions = vec!["rustc/cargo execute the proc macro as a user's build would".into(),
        "percent/ms values where N*0.01f32 != N/100 (1 ulp) are compared with tolerance instead of bit-exactly".into()];
    run.min_sigs = 30;
    let cs = cases();
    run.extra.push(("programs".into(), mina_verif::util::J::U(cs.len() as u64)));
    run_c15::<V>(&mut run, &cs);
    fold_rejects(&mut run, "c15");
    std::process::exit(run.finish());
}
""")
    extra = ["--rejects", rej_path]
    if rest and rest[0] == "--replay":
        extra += ["--replay", os.path.abspath(rest[1])]
    return build_and_run("C15", f"c15_{tier}", "\n".join(body), tier, seed, extra, n)


# ------------------------------------------------------------------------------------------------
# animator! blocks

STATES = ["St::A", "St::B", "St::C", "St::D", "St::E"]
# caller-scope variables every animator! case (and its builder twin) is expanded next to
# (they vary with a knob the driver sets per history, so one expansion site is evaluated with different values, and
# include names a macro is likely to use for its own temporaries)
PRELUDE = ("let k_ = mina_verif::genrt::knob(); let (a, b, c, d) = (7.5f32 + k_ as f32, -3.25f32 - k_ as f32, 99u8 + k_ as u8, 41i32 + k_ as i32); "
           "let (normalized_time, keyframe, builder, timeline, values, time) = (0.625f32 + k_ as f32, 3.5f32, -2.0f32, 9.0f32, 0.5f32, 4.25f32);")


def c16(tier, seed, rest):
    rnd = random.Random(seed * 7919 + (3 if tier == "thorough" else 2))
    n = 3000 if tier == "thorough" else 150
    cases = []
    for i in range(n):
        feats = []
        # defaults clause
        k = rnd.random()
        st0 = rnd.choice(STATES)
        if k < 0.2:
            dflt_m, dv, from_state = "", "V::default()", ""
            feats.append("no-default-clause")
        elif k < 0.35:
            dflt_m, dv, from_state = f"default({st0}),", "V::default()", f".from_state({st0})"
            feats.append("default-state-only")
        elif k < 0.7:
            fs = gen_fields(rnd, allow_empty=False)
            if rnd.random() < 0.3:
                # the listed expressions are the caller's: they may mention caller variables, also ones that happen
                # to be named like fields of the struct (the case closure defines a, b, c, d — see PRELUDE)
                alt = {"a": ["a + 1.0", "b * 2.0", "a", "f32::from(c)"], "b": ["a", "a - b", "b", "d as f32"],
                       "c": ["c", "c / 3", "(d as u8) + c"], "d": ["d - 1", "i32::from(c)", "d", "a as i32"]}
                fs = [(n_, rnd.choice(alt[n_])) for n_, _ in fs]
                feats.append("default-inline-mentions-caller-variables")
            inline = "{ " + ", ".join(f"{n_}: {v}" for n_, v in fs) + " }"
            assigns = " ".join(f"default_values.{n_} = {v};" for n_, v in fs)
            dflt_m = f"default({st0}, {inline}),"
            dv = "{ let mut default_values = V::default(); " + assigns + " default_values }"
            from_state = f".from_state({st0})"
            feats.append("default-inline" + ("-partial" if len(fs) < 4 else "-full"))
        else:
            # "an expression is used as is": calls, full struct literals, struct literals with a functional-update
            # tail (from Default and from a non-default base), parenthesised and method-call forms
            expr = rnd.choice(["V { a: 1.5, b: -2.0, c: 77, d: 9 }", "make_v(3)", "V { c: 200, ..V::default() }", "make_v(-4)",
                               "V { c: 200, ..make_v(3) }", "V { a: 4.5, d: -7, ..make_v(-2) }", "(V { b: 8.0, ..make_v(2) })",
                               "make_v(6).clone()", "V { ..make_v(5) }", "V::default()", "make_v(d)", "V { a, ..make_v(d - 40) }"])
            dflt_m, dv, from_state = f"default({st0}, {expr}),", expr, f".from_state({st0})"
            feats.append("default-expr")
        # arms
        sts = STATES[:]
        rnd.shuffle(sts)
        n_used = rnd.randint(1, 5)
        used = sts[:n_used]
        arms_m, ons = [], []
        # a state may be listed in more than one arm (the builder's `.on` documents that the most recent
        # call for a state wins): now and then re-use already listed states in a later arm
        pending = used[:]
        if len(pending) >= 2 and rnd.random() < 0.35:
            extra = rnd.sample(pending, rnd.randint(1, min(2, len(pending))))
            pos = rnd.randint(1, len(pending))
            pending = pending[:pos] + extra + pending[pos:]
            feats.append("state-listed-in-two-arms")
        used = pending
        while used:
            take = 1 if (rnd.random() < 0.6 or len(used) < 2) else rnd.randint(2, min(3, len(used)))
            group, used = used[:take], used[take:]
            # a state cannot be listed twice within one arm pattern in a meaningful way; split duplicates off
            seen_in_group = []
            for g in group:
                if g in seen_in_group:
                    used = [g] + used
                else:
                    seen_in_group.append(g)
            group = seen_in_group
            args, twin, merged, exact, sig = gen_timeline_invocation(rnd, exact_only=True, allow_default_kf=True)
            if not args.strip():
                args, twin = "1s", "V::timeline().duration_seconds(1.0f32).build()"
            arms_m.append(" | ".join(group) + " => " + args)
            for g in group:
                ons.append(f".on({g}, {twin})")
            if take > 1:
                feats.append(f"multi-state-arm{take}")
            if merged:
                feats.append("merged-arm")
            if "default" in args:
                feats.append("default-keyframe")
        if n_used < 5:
            feats.append("unmentioned-states")
        trailing = "," if rnd.random() < 0.5 else ""
        block = f"animator!(V {{ {dflt_m} {', '.join(arms_m)}{trailing} }})"
        twin = ("{ let default_values = " + dv + "; StateAnimatorBuilder::new()" + from_state
                + ".from_values(default_values.clone())" + "".join(ons) + ".build() }")
        cases.append((i, block, twin, "|".join(sorted(set(feats))) + f"|arms={len(arms_m)}"))
    body = ["// generated by gen/gendriver.py — do not edit", "#![allow(unused_imports, unused_variables, clippy::all)]", "use mina::prelude::*;",
            "use mina_verif::genrt::*;", "use mina_verif::shapes::{Anim, St};", V_DEF,
            "fn make_v(k: i32) -> V { V { a: k as f32 * 2.5, b: 10.0 - k as f32, c: (100 + k) as u8, d: k * 7 } }",
            "fn cases() -> Vec<AnCase<V>> { vec!["]
    for (i, block, twin, sig) in cases:
        body.append(f"  /*CASE {i}*/ AnCase {{ idx: {i}, block: {rs_str(block)}, twin: {rs_str(twin)}, sig: {rs_str(sig)}, mac: || {{ {PRELUDE} {block} }}, bld: || {{ {PRELUDE} {twin} }} }},")
    body.append("] }")
    body.append("""
fn main() {
    let mut run = new_run("C16");
    run.rule = "animator! blocks over a 5-state enum drawn from the grammar (no default clause / default(state) / inline partial or \
full defaults / expression defaults, single- and multi-state arms `A | B | C`, bracketed merged arms, `from default` / `N% default` / \
`to default` keyframes, unmentioned states), each compiled for real next to the StateAnimatorBuilder program the documented reading \
prescribes; both animators are driven by ALL histories of length 4 over {advance 0, 1/8, 1; set_state A..E} (4096 per block) plus 50 \
random long histories and compared on current_state, current_values (bits) and is_ended after every operation and initially; \
non-trivial = a block with at least one arm; distinct = set of grammar features of the block".into();
    run.assumptions = vec!["durations/percentages restricted to those where the macro's f32 arithmetic coincides with the reading (number parsing is C15's subject)".into()];
    run.min_sigs = 25;
    let cs = cases();
    run.extra.push(("programs".into(), mina_verif::util::J::U(cs.len() as u64)));
    run_c16::<V>(&mut run, &cs);
    std::process::exit(run.finish());
}
""")
    extra = []
    if rest and rest[0] == "--replay":
        extra += ["--replay", os.path.abspath(rest[1])]
    return build_and_run("C16", f"c16_{tier}", "\n".join(body), tier, seed, extra, n)


# ------------------------------------------------------------------------------------------------
# derive(Animate) shapes

TYPES = [("f32", "F32"), ("f64", "F64"), ("u8", "U8"), ("i16", "I16"), ("i32", "I32"), ("u32", "U32")]


def gen_shape(rnd, i):
    nf = rnd.randint(1, 6)
    fields = []
    # one shape in three also derives a second (do-nothing) derive whose helper attribute `#[tagged]` is a bare
    # single-segment path like `#[animate]` itself
    helper = rnd.random() < 0.34
    for j in range(nf):
        ty, kind = rnd.choice(TYPES)
        extra = ["/// A documented field.", "#[allow(dead_code)]", "#[doc(hidden)]", "#[doc = \"named-value attribute\"]", "#[cfg_attr(any(), deprecated)]"]
        if helper:
            extra += ["#[tagged]", "#[tagged]", "#[tagged]"]
        pre = [rnd.choice(extra) for _ in range(rnd.choice([0, 0, 1, 1, 2]))]
        post = [rnd.choice(extra) for _ in range(rnd.choice([0, 0, 0, 1]))]
        fields.append({"name": f"f{j}", "ty": ty, "kind": kind, "vis": rnd.choice(["", "pub ", "pub(crate) "]), "pre": pre, "post": post})
    mode = rnd.choice(["none", "some", "some", "all"])
    if mode == "none":
        marks = [False] * nf
    elif mode == "all":
        marks = [True] * nf
    else:
        marks = [rnd.random() < 0.5 for _ in range(nf)]
        if not any(marks):
            marks[rnd.randrange(nf)] = True
    animated = [True] * nf if not any(marks) else marks
    remote = rnd.random() < 0.35
    svis = rnd.choice(["", "pub ", "pub(crate) "])
    return {"i": i, "fields": fields, "marks": marks, "animated": animated, "remote": remote, "svis": svis, "mode": mode, "helper": helper}


def shape_source(sh, with_impl=True):
    i = sh["i"]
    T = f"T{i}"
    fl = []
    for f, m in zip(sh["fields"], sh["marks"]):
        fl.append("\n        " + " ".join(a + ("\n       " if a.startswith("///") else "") for a in f["pre"]) + (" #[animate] " if m else " ")
                  + " ".join(a + ("\n       " if a.startswith("///") else "") for a in f["post"]) + f" {f['vis']}{f['name']}: {f['ty']}")
    anim = [f for f, a in zip(sh["fields"], sh["animated"]) if a]
    plain = [f for f, a in zip(sh["fields"], sh["animated"]) if not a]
    al = ", ".join(f"{f['name']}: {f['ty']} = {f['kind']}" for f in anim)
    pl = ", ".join(f"{f['name']}: {f['ty']} = {f['kind']}" for f in plain)
    desc = (f"{'remote' if sh['remote'] else 'local'} {sh['svis'].strip() or 'private'} struct with fields "
            + ", ".join(("[+attrs] " if (f["pre"] or f["post"]) else "") + ("#[animate] " if m else "") + f"{f['vis']}{f['name']}: {f['ty']}" for f, m in zip(sh["fields"], sh["marks"])))
    out = [f"/*CASE {i}*/ pub mod sh{i} {{", "    #![allow(dead_code, unused_imports)]", "    use mina::prelude::*;"]
    if sh["remote"]:
        pubfields = ", ".join(f"pub {f['name']}: {f['ty']}" for f in sh["fields"])
        evis = {"": "pub(super) ", "pub ": "pub ", "pub(crate) ": "pub(crate) "}[sh["svis"]]
        out.append(f"    pub mod ext {{ #[derive(Clone, Debug, Default, PartialEq)] {evis}struct {T} {{ {pubfields} }} }}")
        out.append(f"    use ext::{T};")
        rpath = f"ext::{T}" if sh["i"] % 2 == 0 else T
        hd = ", marker_derive::Marker" if sh.get("helper") else ""
        out.append(f"    #[derive(Animate{hd})]\n    #[animate(remote = \"{rpath}\")]\n    {sh['svis']}struct {T}Proxy {{ {', '.join(fl)} }}")
        target, animty = f"ext::{T}", f"{T}Proxy"
    else:
        hd = ", marker_derive::Marker" if sh.get("helper") else ""
        out.append(f"    #[derive(Animate{hd}, Clone, Debug, Default, PartialEq)]\n    {sh['svis']}struct {T} {{ {', '.join(fl)} }}")
        target, animty = T, T
    if with_impl:
        out.append(f"    mina_verif::shape_impl!({target}, {animty}, {T}Timeline, [{al}], [{pl}]);")
        out.append(f"    pub fn run(run: &mut mina_verif::util::Run) {{ mina_verif::genrt::run_c17_shape::<{target}>(run, {i}, {rs_str(desc)}); }}")
    out.append("}")
    return "\n".join(out), animty, anim, plain


def c17(tier, seed, rest):
    rnd = random.Random(seed * 104729 + (5 if tier == "thorough" else 4))
    n = 1500 if tier == "thorough" else 120
    shapes = [gen_shape(rnd, i) for i in range(n)]
    # compile-fail: non-animated fields have no setter; animated ones do (controls)
    rej_n = 300 if tier == "thorough" else 60
    header_parts = ["#![allow(dead_code, unused_imports)]", "use mina::prelude::*;"]
    lines = []
    for sh in shapes[:rej_n]:
        src, animty, anim, plain = shape_source(sh, with_impl=False)
        header_parts.append(src)
        val = {"f32": "1.0", "f64": "1.0", "u8": "1", "i16": "1", "i32": "1", "u32": "1"}
        for f in plain:
            lines.append((f"{{ use mina::prelude::*; sh{sh['i']}::{animty}::keyframe(0.5).{f['name']}({val[f['ty']]}) }}", "setter-for-non-animated-field", True))
        if anim and sh["svis"] != "":
            f = anim[0]
            lines.append((f"{{ use mina::prelude::*; sh{sh['i']}::{animty}::keyframe(0.5).{f['name']}({val[f['ty']]}) }}", "control", False))
    # private structs cannot be named from outside their module; only shapes with pub/pub(crate) are probed
    lines = [l for l in lines if True]
    header = "\n".join(header_parts) + "\n"
    probe = []
    for (text, cls, ill) in lines:
        idx = int(text.split("sh")[1].split("::")[0])
        if shapes[idx]["svis"] == "":
            continue
        probe.append((text, cls, ill))
    ok, rej_path = observe_rejects(f"c17_rejects_{tier}", header, probe)
    if not ok:
        return inconclusive("C17", "compile-fail observation could not run")
    body = ["// generated by gen/gendriver.py — do not edit", "#![allow(unused_imports, clippy::all)]", "use mina_verif::genrt::*;"]
    for sh in shapes:
        body.append(shape_source(sh)[0])
    body.append("fn main() {")
    body.append('    let mut run = new_run("C17");')
    body.append('''    run.rule = "generated struct shapes (1-6 fields of f32/f64/u8/i16/i32/u32, #[animate] on none/some/all, field and struct \
visibility private/pub/pub(crate), local or remote via #[animate(remote = ...)] with the real struct in a module), each compiled \
for real with derive(Animate); per shape: every animated field's setter is called (compiles) and non-animated fields have none \
(compile-fail crate), keyframe_from copies exactly the animated fields (sentinels elsewhere), update on the (remote) target agrees \
with M-scale∘M-prop (C01's oracle) on 3 keyframe sets x all-phase times, non-animated fields keep their sentinel bits, and the four \
accessors return what the builder was given; non-trivial = every shape; distinct = distinct shape descriptions".into();''')
    body.append('    run.assumptions = vec!["same oracle assumptions as C01".into()];')
    body.append("    run.min_sigs = 40;")
    body.append(f'    run.extra.push(("programs".into(), mina_verif::util::J::U({n})));')
    for sh in shapes:
        body.append(f"    sh{sh['i']}::run(&mut run);")
    body.append('    fold_rejects(&mut run, "c17");')
    body.append("    std::process::exit(run.finish());")
    body.append("}")
    extra = ["--rejects", rej_path]
    if rest and rest[0] == "--replay":
        extra += ["--replay", os.path.abspath(rest[1])]
    return build_and_run("C17", f"c17_{tier}", "\n".join(body), tier, seed, extra, n)


def main(pid, tier, seed, rest):
    os.makedirs(GEN, exist_ok=True)
    # the harness library must be current
    p = subprocess.run(["cargo", "build", "--release", "--offline", "--manifest-path", os.path.join(VERIF, "harness", "Cargo.toml")],
                       env=ENV, stdout=subprocess.PIPE, stderr=subprocess.STDOUT, text=True)
    if p.returncode != 0:
        print(p.stdout[-6000:])
        return inconclusive(pid, "harness build failed against /repo working tree")
    try:
        return {"C15": c15, "C16": c16, "C17": c17}[pid](tier, seed, rest)
    except CompilerHang as e:
        return inconclusive(pid, f"compiler did not terminate within {COMPILE_WATCHDOG} s (cargo {e}); a macro under test may be looping")
