#!/bin/bash
# usage: seedbatch.sh <root> <label-prefix> [ids...] — confirms and evaluates the seeds found under <root>/<ID>/out/patch.diff
ROOT=$1; PFX=$2; shift 2
ids=${@:-C01 C02 C03 C04 C05 C06 C07 C08 C09 C10 C11 C12 C13 C14 C15 C16 C17 C18 C19 C20}
cd /verif
for id in $ids; do
  [ -f $ROOT/$id/out/patch.diff ] || { echo "$id: no patch yet"; continue; }
  MUTROOT=$ROOT tools/seedconfirm2.sh $id
  case $id in
    C01|C02|C03|C08|C09|C10|C11|C12) set="$id C01 C02 C10 C12";;
    C04|C05|C06|C07) set="$id C04 C05 C06 C07";;
    C13) set="C13 C09 C01";;
    C14) set="C14 C20";;
    C15|C16|C17) set="$id C15 C16 C17";;
    C18|C19) set="$id C18 C19";;
    C20) set="C20 C03 C02";;
  esac
  set=$(echo $set | tr ' ' '\n' | awk '!s[$0]++' | tr '\n' ' ')
  tools/seedrun2.sh $ROOT/$id/out/patch.diff $PFX-$id $set | cut -c1-300
done
