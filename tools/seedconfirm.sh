#!/bin/bash
# usage: seedconfirm.sh <ID> <N>   — confirms a seeded change in its scratch worktree /tmp/mut/<ID>:
# patch applies, workspace test suite passes with it, demo fails with it and passes without it.
ID=$1; N=$2; W=/tmp/mut/$ID
export CARGO_TARGET_DIR=/tmp/mut/target_shared CARGO_NET_OFFLINE=true
cd $W || exit 9
git checkout -q -- core macros src bevy/src 2>/dev/null
P=$W/out/patch$N.diff
[ -f $P ] || { echo "$ID/$N: no patch"; exit 8; }
demo=$(ls tests/demo_${ID}_$N.rs bevy/tests/demo_${ID}_$N.rs 2>/dev/null | head -1)
[ -n "$demo" ] || { echo "$ID/$N: no demo file"; exit 7; }
case $demo in bevy/*) pkg="-p bevy_mina";; *) pkg="-p mina";; esac
tname=$(basename $demo .rs)
git apply --check $P || { echo "$ID/$N: patch does not apply"; exit 6; }
# without the change: demo must pass
if cargo test --offline $pkg --test $tname >/tmp/mut/$ID/out/confirm_${N}_without.log 2>&1; then wo=pass; else wo=FAIL; fi
git apply $P
# with the change: suite must pass, demo must fail
if cargo nextest run --workspace --no-fail-fast --offline -E "not binary(~demo_)" >/tmp/mut/$ID/out/confirm_${N}_suite.log 2>&1; then suite=pass; else suite=FAIL; fi
npass=$(grep -c "^ *PASS" /tmp/mut/$ID/out/confirm_${N}_suite.log)
if cargo test --offline $pkg --test $tname >/tmp/mut/$ID/out/confirm_${N}_with.log 2>&1; then wi=pass; else wi=FAIL; fi
git checkout -q -- core macros src bevy/src
echo "$ID/$N: suite_with_change=$suite($npass passed) demo_with_change=$wi demo_without_change=$wo lines=$(grep -c '^[-+][^-+]' $P)"
