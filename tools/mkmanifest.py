#!/usr/bin/env python3
"""Regenerates /verif/MANIFEST.json from the table below and validates it against the schema."""
import json, os, sys

VERIF = os.path.dirname(os.path.dirname(os.path.abspath(__file__)))

# id -> (built?, technique, level text, level note, design ref)
T = {
 "C01": (True, "reference-model monitor (M-scale∘M-prop) over generated keyframe sets evaluated on real derive/builder timelines",
         "Runtime monitoring: thousands (quick) to hundreds of thousands (thorough) of real timelines are built through the public builder from generated keyframe sets and every evaluated property is compared with an independent executable model of CSS keyframe interpolation; a small scope is enumerated exhaustively. Held = no disagreement on the executions observed.",
         "Trusts rustc/std f32 arithmetic; easing curves are uninterpreted (C13); timing restricted to instants whose position is exact in f32 — power-of-two cycles, and cycles such as 3, 41, 0.75 s at their j/2^m fractions (C03 covers inexact timing).", "§4 C01"),
 "C02": (True, "analytic-oracle monitor at exact keyframe/boundary instants (power-of-two and other short-mantissa cycles), off-grid timing judged well after the end / inside the delay, and builders with omitted timing setters",
         "Runtime monitoring of real timelines at times that map exactly onto every keyframe position of every property in every cycle, onto the delay, the end of each forward pass and times at/after the total duration; oracle = the keyframe / 0 % / 100 % / terminal value (ints exact, floats <= 4 ulp, terminal bits constant). A second stream uses cycles off the dyadic grid (0.1 s, 0.7 s, ...) and judges only well after the end and well inside the delay. In a third of the substituted cases an earlier, different start_with precedes the one in force. One plain timeline in eight is built with some of the duration / delay / repeat setters omitted and judged against what a bare builder reports for them (which must be a valid configuration).",
         "Only configurations whose f32 intermediates are exact are generated; ambiguous cases (same property twice at a position) are never judged.", "§4 C02"),
 "C03": (True, "exhaustive/dense sweep of the f32 time axis against an f64 model with boundary bands + bit-exact dyadic grid relations",
         "Runtime monitoring of TimeScale::get_position and of Timeline::update on a linear probe over every f32 bit pattern (thorough) / stride-61 + all floats within 4096 ulp of each phase boundary (quick) for fixed and random timing configurations; bit-exact comparison, periodicity and mirror relations on a dyadic grid; an exact stream over 4 280 configurations whose cycle is not a power of two (all integer cycles 1..100 s and some fractional ones, at every j/64 fraction of every cycle); a three-keyframe probe for the resting values; eight timing sentences written in the timeline! grammar (mixed units); metadata accessors (also through the single-component MergedTimeline wrapper, also with negative totals) tied to observed behaviour.",
         "Inside a band of about one ulp around a wrap / turning point / end instant either side is accepted (counted).", "§4 C03"),
 "C04": (True, "relational monitor over exhaustively enumerated and random operation histories (before/after set_state snapshots, twin animator)",
         "Runtime monitoring: all histories to depth 5 (quick) / 7 (thorough) over a 10-operation alphabet on a pool of animator configurations plus random long histories (now and then with a step of 2e12 s .. f32::MAX) with probe suffixes; current_values must be bit-identical immediately before and after every set_state, and a twin that never receives set_state(current) must follow the identical trajectory.",
         "Model-free; bit equality identifies +0.0 and -0.0; values are f32-representable.", "§4 C04"),
 "C05": (True, "history + executable model (M-anim with twin timelines) compared after every operation",
         "Runtime monitoring: the same exploration engine as C04; after every operation current_state, current_values (bit-exact) and is_ended are compared with the M-anim reference model of blend/pause/resume (bit-exact at the model's own f32 reading of the time in state, else at a neighbouring f32 reading within float rounding; the phase of an endless timeline after 2^40 s is not judged); the hook snapshot is logged as a diagnostic only.",
         "M-anim delegates timeline evaluation to twin instances of the real timelines (C09/C10/C12 decide those).", "§4 C05"),
 "C06": (True, "relational monitor between real animators over all step compositions of each interval",
         "Runtime monitoring: every composition of each inter-transition interval (2^(m-1) schedules, m <= 9 quick / 12 thorough), with and without interleaved zero-length advances, must give values, state and is_ended bit-identical to the single-step run; inexact f32 splits are compared against an envelope of single-step runs; same-frame transitions with inserted zero-length advances; Times(n) timelines off the dyadic grid delivered cycle by cycle / at once / in halves must agree well after their end; a total longer than anything (1.8e19 s .. f32::MAX) delivered before / after / together with an ordinary step must leave a finite animation in the same resting state, and advance(0) must change nothing afterwards.",
         "Grid units convert to Duration exactly; envelope cases that straddle a discontinuity are counted as inconclusive_band.", "§4 C06"),
 "C07": (True, "history monitor with totals and terminal values computed from the configuration, cross-checked with twin timelines",
         "Runtime monitoring of is_ended and current_values across advances that land exactly on, just before, just after and far beyond the total duration, up to steps of f32::MAX seconds (on- and off-grid configurations, merged and infinite components), followed by 50 further advances: exactness, monotonicity, never-ended-when-infinite, values resting at the terminal values.",
         "Where cycle, delay, cycle x (repeats+1), the advances or the f32 reading of the time are not exact, a band of 2 ulp (+1 ns per advance) around the end instant accepts either answer.", "§4 C07"),
 "C08": (True, "sentinel bit-pattern monitor on targets and animator values",
         "Runtime monitoring: targets pre-filled with random bit patterns (NaN payloads included) are compared bit-for-bit after update in every phase for every field outside the animated-and-keyframed set (excluded fields, un-keyframed properties, empty and merged timelines), and across the histories of builder-built and animator!-built animators (looping arms without a 0 % keyframe, timing-only, merged and overlapping arms).",
         "The animated-and-keyframed set is computed from the generated specification.", "§4 C08"),
 "C09": (True, "relational monitor across query orders, clones, prior target contents and start_with sequences (bit-exact)",
         "Runtime monitoring: each generated timeline is evaluated at ~64 times in ascending, random, backward and repeated order, into sentinel-filled and previously-written targets and through clones taken before/after; every result must be bit-identical to the first; Debug digest unchanged; only the last start_with counts and metadata is unaffected.",
         "Digest clause assumes derive(Debug) shows all state.", "§4 C09"),
 "C10": (True, "twin comparison (with/without start_with) plus M-prop for the blended stretch",
         "Runtime monitoring of a timeline and its start_with twin over dense times in all phases: exactly v up to the delay, model-conform blend only before the property's first keyframe after 0 % in the first forward pass, bit-identical everywhere else (reverse pass, later cycles, after the end).",
         "Two keyframes of one property at 0 % are never judged.", "§4 C10"),
 "C11": (True, "relational monitor over all/random insertion-order permutations against the ascending-order twin (bit-exact)",
         "Runtime monitoring: every insertion order for n <= 5 (quick) / 6 (thorough) keyframes, random orders beyond, compared bit-for-bit with the ascending-order twin at ~100 times and on metadata; eight timeline! sentences each written in 6 / 12 orders of their keyframes are compared the same way.",
         "The ascending twin's own correctness is C01's subject.", "§4 C11"),
 "C12": (True, "relational monitor: merged vs in-order application of the real components; aggregate accessors vs configuration",
         "Runtime monitoring of MergedTimeline over lists of 0..4 real components (overlapping/disjoint, heterogeneous timing, extreme repeat counts): update equals ordered overlay bit-for-bit, order-independence when disjoint, start_with reaches all, delay=min, duration=max, repeat=max with Infinite on top, common cycle or none, single == component, empty touches nothing.",
         "Components are real timelines (their own evaluation is C01).", "§4 C12"),
 "C13": (True, "exhaustive/dense sweep of calc over the f32 values of [0,1] with analytic clauses and a published control-point table",
         "Runtime monitoring of all 29 easings over every f32 in [0,1] (thorough) / stride 257 + 65 536 floats at each end (quick): exact endpoints, range, monotonicity, Linear identity, In/Out and InOut mirrors, Custom as given, and the definition against the published timing function. Known finding F3 is matched by exact signature per variant.",
         "Trusted: the published control points embedded in the harness; 1e-6 float slack.", "§4 C13"),
 "C14": (True, "exhaustive 8-bit sweep + boundary/random sweeps of Lerp with analytic oracle under catch_unwind",
         "Runtime monitoring of Lerp::lerp: all 65 536 pairs of u8 and of i8 over a dense x grid, boundary and random f32-representable pairs for the wider types, a strided full x axis for boundary pairs (thorough), glam vectors against scalar lerp; ends exact, lerp(a,a,x)=a, between, monotone, nearest, no panic.",
         "Wide integer types: 2 ulp32 slack for f32 arithmetic.", "§4 C14"),
 "C15": (True, "translation-style differential monitor: generated timeline! sentences compiled for real vs. their builder twins; compile-fail observation via cargo check JSON diagnostics",
         "Runtime monitoring of generated programs: 400 (quick) / 6000 (thorough) sentences drawn from the macro grammar (all argument kinds, literal forms, shuffled order, bracketed merges) are compiled by the real rustc+proc-macro and each macro-built timeline is compared with the builder-built twin on metadata and on values at ~140 times; ill-formed sentences of the four classes are compiled in a second crate and every one must draw a compiler error attributed to its line.",
         "Trusts rustc/cargo; sentences whose f32 numbers differ by one ulp between macro and reading are compared within an envelope instead of bit-exactly.", "§4 C15"),
 "C16": (True, "differential monitor: generated animator! blocks vs. StateAnimatorBuilder twins driven by the same exhaustive + random histories",
         "Runtime monitoring of generated programs: 150 (quick) / 3000 (thorough) animator! blocks covering every grammar alternative are compiled for real next to their builder twins; both animators are driven through all 4096 histories of length 4 over an 8-operation alphabet plus 50 random long histories and compared bit-for-bit after every operation.",
         "Numbers restricted to those where macro and reading coincide in f32 (C15 covers number parsing).", "§4 C16"),
 "C17": (True, "generated struct-shape family compiled with derive(Animate), checked with C01's model oracle, sentinel oracle and compile-fail observation",
         "Runtime monitoring of generated programs: 120 (quick) / 1500 (thorough) struct shapes (field counts/types, #[animate] subsets, visibilities, local and remote proxies) are compiled for real; per shape the C01 model oracle, the untouched-field sentinel oracle, keyframe_from and the four accessors are checked, and setters for non-animated fields must be rejected by the compiler.",
         "Same assumptions as C01; private shapes cannot be probed from outside their module in the compile-fail crate.", "§4 C17"),
 "C18": (True, "trace-invariant monitor over exhaustive and random frame/operation schedules in a real bevy App with a hand-driven clock",
         "Runtime monitoring of the real plugin: every frame-delta history of length 6 (quick) / 8 (thorough) over {0, 1/512 s, 1/8 s, 64 s} for 41 timelines (3 of them off the dyadic grid), every (operation, delta) history of length 4/5, and random 50-300 frame histories (one or two animated components, 4 registration orders, single- and multi-threaded executor, animators built through every public constructor); invariants 0-8 checked after every frame.",
         "bevy 0.11.3 App/Time/Events trusted; after a hot set_timeline only invariants 1,2,3,7,8 are demanded until the next reset; the f32 reading of a position may be as_secs_f32() or the correctly rounded one; off-grid timelines carry a 2 ulp band at their total.", "§4 C18"),
 "C19": (True, "online trace-specification checker with candidate model states (nondeterministic system order / race outcome) over exhaustive and random histories in a real bevy App",
         "Runtime monitoring of selector/chain: every history of length 4 (quick) / 5 (thorough) over {no-op, assign 4 keys} x 4 frame deltas for 30 configurations (chains with cycles/self-loops/missing entries, second animated component) plus random long histories; each frame must be explained by the specification under some system order and race outcome; 96 further runs share one key type between the selectors of two component types and demand bounded progress of each chain.",
         "chain/select are mutually unordered in mina's registration, so either order is accepted; the explicit-assignment race accepts both documented outcomes.", "§4 C19"),
 "C20": (True, "hostile-alphabet monitor under catch_unwind with NaN/inf scanning and a dev-vs-release output-log diff (overflow-checks as arithmetic sanitizer)",
         "Runtime monitoring with extreme but valid configurations (repeat counts up to u32::MAX, cycles/delays from MIN_POSITIVE to f32::MAX, boundary positions, +-1e37 values, full-range integer properties under all easings, times at every boundary +-1 ulp and up to f32::MAX, animator advances beyond Duration::MAX, builders with any subset of the timing setters left out, the empty merged timeline): every call under catch_unwind, outputs scanned for non-finite values, duration() compared with the documented total, and the identical seeded workload run in the dev (overflow-checks, debug-assertions) and release builds with the output logs diffed.",
         "Extreme negative delays and values beyond 1e37 are outside the generated space.", "§4 C20"),
}
PENDING = "check not built yet in this round (planned in DESIGN.md §4); not claimed until its monitor exists"

def main():
    checks, na = [], []
    for n in range(1, 21):
        pid = f"C{n:02d}"
        if pid in T and T[pid][0]:
            _, tech, text, note, ref = T[pid]
            checks.append({
                "property_id": pid,
                "quick_cmd": f"./vcheck {pid} quick",
                "thorough_cmd": f"./vcheck {pid} thorough",
                "evidence_file": f"/verif/evidence/{pid}.json",
                "replay_cmd_template": f"./vcheck {pid} --replay {{path}}",
                "engine": "mina_verif_bevy" if pid in ("C18", "C19") else ("gen" if pid in ("C15", "C16", "C17") else "mina_verif"),
                "level_claimed": {"category": "exploration", "text": text, "design_ref": ref},
                "level_note": note,
                "technique": tech,
            })
        else:
            na.append({"property_id": pid, "reason": PENDING})
    m = {
        "version": 1,
        "setup_cmd": "./vcheck setup",
        "hooks": {
            "guard": "cargo feature `verif-hooks` on mina_core (off by default)",
            "enable": "harness depends on mina_core with features=[\"verif-hooks\"] via path=/repo/core",
            "baseline_off_cmd": "cd /repo && cargo nextest run --workspace --no-fail-fast --offline",
            "source_commits": ["7b22e27"],
            "add_only": True,
        },
        "engines": [
            {"name": "mina_verif", "path": "/verif/harness", "serves_properties": [f"C{n:02d}" for n in list(range(1, 15)) + [20]],
             "kind_free_text": "Rust harness linking /repo by path: workload generators, reference models, relational oracles, evidence writer"},
            {"name": "mina_verif_bevy", "path": "/verif/harness_bevy", "serves_properties": ["C18", "C19"],
             "kind_free_text": "Real bevy App with AnimationPlugin and a hand-driven Time resource; trace-invariant monitors"},
            {"name": "gen", "path": "/verif/gen", "serves_properties": ["C15", "C16", "C17"],
             "kind_free_text": "Python generators of macro sentences / animator blocks / struct shapes; generated crates compiled for real and linked with mina_verif::genrt; compile-fail observation via cargo check JSON"},
        ],
        "checks": checks,
        "not_applicable": na,
        "notes": "Technique family: runtime monitoring. Every verdict is 'held on the executions observed'. See DESIGN.md.",
    }
    extra = os.path.join(VERIF, "tools", "manifest_extra.json")
    if os.path.exists(extra):
        m.update(json.load(open(extra)))
    json.dump(m, open(os.path.join(VERIF, "MANIFEST.json"), "w"), indent=1, ensure_ascii=False)
    try:
        import jsonschema
        jsonschema.validate(m, json.load(open("/root/.vp/MANIFEST.schema.json")))
        print("MANIFEST.json valid;", len(checks), "checks,", len(na), "not_applicable")
    except ImportError:
        print("jsonschema not available; wrote MANIFEST.json unvalidated")

if __name__ == "__main__":
    main()
