#!/usr/bin/env python3
"""Regenerates /verif/MANIFEST.json from the table below and validates it against the schema."""
import json, os, sys

VERIF = os.path.dirname(os.path.dirname(os.path.abspath(__file__)))

# id -> (built?, technique, level text, level note, design ref)
T = {
 "C01": (True, "reference-model monitor (M-scale∘M-prop) over generated keyframe sets evaluated on the real derive/builder timelines",
         "Runtime monitoring: every run builds thousands (quick) to hundreds of thousands (thorough) of real timelines through the public builder from generated keyframe sets and compares every evaluated property with an independent executable model of CSS keyframe interpolation; plus an exhaustively enumerated small scope. Held = no disagreement on the executions observed.",
         "Trusts rustc/std f32 arithmetic; easing curves are uninterpreted (C13); timing restricted to the dyadic exact regime (C03 covers inexact timing).", "§4 C01"),
}
PENDING = "check not built yet in this round (planned in DESIGN.md §4); not claimed until its monitor exists"

def main():
    checks, na = [], []
    for n in range(1, 21):
        pid = f"C{n:02d}"
        if pid in T and T[pid][0]:
            _, tech, text, note, ref = T[pid]
            checks.append({
                "property_id": pid,
                "quick_cmd": f"./vcheck {pid} quick",
                "thorough_cmd": f"./vcheck {pid} thorough",
                "evidence_file": f"/verif/evidence/{pid}.json",
                "replay_cmd_template": f"./vcheck {pid} --replay {{path}}",
                "engine": "mina_verif",
                "level_claimed": {"category": "exploration", "text": text, "design_ref": ref},
                "level_note": note,
                "technique": tech,
            })
        else:
            na.append({"property_id": pid, "reason": PENDING})
    m = {
        "version": 1,
        "setup_cmd": "./vcheck setup",
        "hooks": {
            "guard": "cargo feature `verif-hooks` on mina_core (off by default)",
            "enable": "harness depends on mina_core with features=[\"verif-hooks\"] via path=/repo/core",
            "baseline_off_cmd": "cd /repo && cargo nextest run --workspace --no-fail-fast --offline",
            "source_commits": [],
            "add_only": True,
        },
        "engines": [
            {"name": "mina_verif", "path": "/verif/harness", "serves_properties": [c["property_id"] for c in checks],
             "kind_free_text": "Rust harness linking /repo by path: workload generators, reference models, relational oracles, evidence writer"},
        ],
        "checks": checks,
        "not_applicable": na,
        "notes": "Technique family: runtime monitoring. Every verdict is 'held on the executions observed'. See DESIGN.md.",
    }
    extra = os.path.join(VERIF, "tools", "manifest_extra.json")
    if os.path.exists(extra):
        m.update(json.load(open(extra)))
    json.dump(m, open(os.path.join(VERIF, "MANIFEST.json"), "w"), indent=1, ensure_ascii=False)
    try:
        import jsonschema
        jsonschema.validate(m, json.load(open("/root/.vp/MANIFEST.schema.json")))
        print("MANIFEST.json valid;", len(checks), "checks,", len(na), "not_applicable")
    except ImportError:
        print("jsonschema not available; wrote MANIFEST.json unvalidated")

if __name__ == "__main__":
    main()
