#!/usr/bin/env python3
"""Systematic one-line mutation campaign against /repo, used to look for blind spots of the checks.

  tools/mutate.py list                 -> prints the mutants it would try (file:line operator)
  tools/mutate.py run [--max N] [--only core|macros|bevy] [--out FILE] [--start K] [--idx a,b,c]
        applies one mutant at a time to /repo's working tree (which must be clean), runs the quick
        tier of the relevant checks through ./vcheck (stopping at the first check that reports a
        VIOLATION), reverts with `git checkout`, and appends one JSON line per mutant to FILE.
  tools/mutate.py triage FILE          -> for the survivors in FILE: do the 46 pinned tests notice them?

A mutant that does not compile is "stillborn"; a mutant for which the harness itself no longer builds
is recorded as "harness-build-failure" (the checks report INCONCLUSIVE for it, which is not a verdict).
Survivors are either equivalent mutants, changes outside every property, or blind spots worth closing.
"""
import json, os, re, subprocess, sys, time

REPO = "/repo"
VERIF = os.path.dirname(os.path.dirname(os.path.abspath(__file__)))

TARGETS = {
    "core": ["core/src/time_scale.rs", "core/src/timeline.rs", "core/src/timeline_helpers.rs", "core/src/animator.rs",
             "core/src/interpolation.rs", "core/src/easing.rs", "core/src/glam.rs"],
    "macros": ["macros/src/fn_timeline.rs", "macros/src/fn_animator.rs", "macros/src/derive_animate.rs"],
    "bevy": ["bevy/src/animator.rs", "bevy/src/selection.rs"],
}
CHECKS = {
    "core": ["C01", "C05", "C03", "C02", "C10", "C12", "C04", "C07", "C06", "C08", "C09", "C11", "C13", "C14", "C20"],
    "macros": ["C17", "C15", "C16"],
    "bevy": ["C18", "C19"],
}

# (name, regex, replacement) — applied to one occurrence on one line
OPS = [
    ("rel<=", r" <= ", " < "), ("rel<", r" < ", " <= "), ("rel>=", r" >= ", " > "), ("rel>", r" > ", " >= "),
    ("rel==", r" == ", " != "), ("rel!=", r" != ", " == "),
    ("add", r" \+ ", " - "), ("sub", r" - ", " + "), ("mul", r" \* ", " / "), ("div", r" / ", " * "),
    ("and", r" && ", " || "), ("or", r" \|\| ", " && "),
    ("not", r"\bif !", "if "), ("true", r"\btrue\b", "false"), ("false", r"\bfalse\b", "true"),
    ("c0.0", r"\b0\.0\b", "1.0"), ("c1.0", r"\b1\.0\b", "0.0"), ("c0.5", r"\b0\.5\b", "0.25"), ("c2.0", r"\b2\.0\b", "1.0"),
    ("c0.001", r"\b0\.001\b", "0.01"), ("c0.01", r"\b0\.01\b", "0.1"),
    ("minmax", r"\.min\(", ".max("), ("maxmin", r"\.max\(", ".min("), ("firstlast", r"\.first\(\)", ".last()"), ("lastfirst", r"\.last\(\)", ".first()"),
    ("plus1", r"\+ 1\b", "+ 0"), ("minus1", r"- 1\b", "- 0"),
    ("is_some", r"\.is_some\(\)", ".is_none()"), ("is_none", r"\.is_none\(\)", ".is_some()"),
    ("some_none", r"=> Some\(([a-z_]+)\)", "=> None"),
    ("zero_dur", r"Duration::ZERO", "Duration::from_secs(1)"),
    ("lt_gt", r"\.is_lt\(\)", ".is_gt()"),
]
SKIP_LINE = re.compile(r"^\s*(//|///|#\[|use |pub use |mod |pub mod |impl|pub trait|trait |where|fn |pub fn |pub\(super\) fn |type |pub type |\}|\{|\)|$)|assert|panic!|expect\(|Error::new|concat!|\"[^\"]*[<>=+\-*/][^\"]*\"")


def code_lines(path):
    """Line numbers (1-based) of non-test, non-comment code."""
    out = []
    txt = open(os.path.join(REPO, path)).read().split("\n")
    in_doc = False
    for i, l in enumerate(txt):
        if l.strip().startswith("#[cfg(test)]") and i + 1 < len(txt) and "mod tests" in txt[i + 1]:
            break
        if "lazy_static!" in l:
            in_doc = True
        if in_doc:
            if l.startswith("}"):
                in_doc = False
            continue
        if SKIP_LINE.search(l):
            continue
        out.append((i + 1, l))
    return out


def mutants(groups):
    ms = []
    for g in groups:
        for path in TARGETS[g]:
            for (ln, l) in code_lines(path):
                for (name, rx, rep) in OPS:
                    for k, m in enumerate(re.finditer(rx, l)):
                        new = l[:m.start()] + m.expand(rep) + l[m.end():]
                        if new != l:
                            ms.append({"group": g, "file": path, "line": ln, "op": name, "k": k, "old": l.strip(), "new": new.strip(), "_new": new})
                # statement deletion: plain assignments / calls ending in ';'
                s = l.strip()
                if s.endswith(";") and not s.startswith(("let ", "return", "pub ", "use ", "const ", "static ")) and ("=" in s or "(" in s) and "::" not in s.split("(")[0].split("=")[0]:
                    ms.append({"group": g, "file": path, "line": ln, "op": "delete", "k": 0, "old": s, "new": "<deleted>", "_new": re.match(r"\s*", l).group(0) + "();"})
    return ms


def sh(cmd, cwd=None, timeout=1800):
    import signal
    env = dict(os.environ, VERIF_COMPILE_WATCHDOG="300")
    p = subprocess.Popen(cmd, shell=True, cwd=cwd, stdout=subprocess.PIPE, stderr=subprocess.STDOUT, text=True, start_new_session=True, env=env)
    try:
        out, _ = p.communicate(timeout=timeout)
    except subprocess.TimeoutExpired:
        try:
            os.killpg(p.pid, signal.SIGKILL)
        except OSError:
            pass
        p.communicate()
        return subprocess.CompletedProcess(cmd, 124, "TIMEOUT", None)
    return subprocess.CompletedProcess(cmd, p.returncode, out, None)


def apply(m):
    p = os.path.join(REPO, m["file"])
    lines = open(p).read().split("\n")
    assert lines[m["line"] - 1].strip() == m["old"], (m, lines[m["line"] - 1])
    lines[m["line"] - 1] = m["_new"]
    open(p, "w").write("\n".join(lines))


def revert():
    sh("git checkout -- .", cwd=REPO)


def run(args):
    groups = ["core", "macros", "bevy"]
    mx, out, start = 10 ** 9, os.path.join(VERIF, "build", "mutation.jsonl"), 0
    only_idx = None
    i = 0
    while i < len(args):
        if args[i] == "--max":
            mx = int(args[i + 1]); i += 1
        elif args[i] == "--only":
            groups = [args[i + 1]]; i += 1
        elif args[i] == "--out":
            out = args[i + 1]; i += 1
        elif args[i] == "--start":
            start = int(args[i + 1]); i += 1
        elif args[i] == "--idx":
            only_idx = set(int(x) for x in args[i + 1].split(",")); i += 1
        i += 1
    if sh("git diff --quiet", cwd=REPO).returncode != 0:
        print("repo dirty"); return 2
    ms = mutants(groups)
    # deterministic thinning to at most mx mutants
    if len(ms) > mx:
        step = len(ms) / mx
        ms = [ms[int(j * step)] for j in range(mx)]
    os.makedirs(os.path.dirname(out), exist_ok=True)
    f = open(out, "a")
    for idx, m in enumerate(ms):
        if idx < start or (only_idx is not None and idx not in only_idx):
            continue
        t0 = time.time()
        try:
            apply(m)
            # does the library still compile? (cheap: cargo check of the touched crate)
            crate = {"core": "mina_core", "macros": "mina_macros", "bevy": "bevy_mina"}[m["group"]]
            c = sh(f"cargo check --offline -q -p {crate}", cwd=REPO)
            rec = {k: v for k, v in m.items() if not k.startswith("_")}
            rec["idx"] = idx
            if c.returncode != 0:
                rec["status"] = "stillborn"
            else:
                rec["status"] = "survived"
                rec["checks"] = {}
                for chk in CHECKS[m["group"]]:
                    r = sh(f"./vcheck {chk} quick", cwd=VERIF)
                    if r.returncode == 1:
                        rec["status"] = "caught"
                        rec["caught_by"] = chk
                        w = [l for l in r.stdout.split("\n") if l.strip().startswith("what:")]
                        rec["what"] = w[0].strip()[:240] if w else ""
                        break
                    elif r.returncode == 2:
                        rec["checks"][chk] = "inconclusive"
                        if "compiler did not terminate" in r.stdout:
                            rec["status"] = "compiler-hang"
                            break
                        if "build failed" in r.stdout or "failed to compile" in r.stdout:
                            rec["status"] = "harness-build-failure"
                            break
                    else:
                        rec["checks"][chk] = "held"
            rec["secs"] = round(time.time() - t0, 1)
        finally:
            revert()
        f.write(json.dumps(rec) + "\n"); f.flush()
        print(f"[{idx + 1}/{len(ms)}] {rec['file']}:{rec['line']} {rec['op']} -> {rec['status']} {rec.get('caught_by', '')} ({rec['secs']}s)", flush=True)
    return 0


def triage(path):
    recs = [json.loads(l) for l in open(path)]
    surv = [r for r in recs if r["status"] == "survived"]
    print(f"{len(recs)} mutants: " + ", ".join(f"{k}={sum(1 for r in recs if r['status'] == k)}" for k in ["caught", "survived", "stillborn", "harness-build-failure", "compiler-hang"]))
    if sh("git diff --quiet", cwd=REPO).returncode != 0:
        print("repo dirty"); return 2
    allm = {(m["file"], m["line"], m["op"], m["k"]): m for m in mutants(["core", "macros", "bevy"])}
    for r in surv:
        m = allm.get((r["file"], r["line"], r["op"], r["k"]))
        if not m:
            continue
        try:
            apply(m)
            t = sh("cargo nextest run --workspace --no-fail-fast --offline 2>&1 | tail -3", cwd=REPO)
            r["pinned_tests"] = "pass" if "46 passed" in t.stdout else "FAIL"
        finally:
            revert()
        print(f"{r['file']}:{r['line']} {r['op']}: `{r['old']}` -> `{r['new']}`  pinned tests: {r['pinned_tests']}", flush=True)
    json.dump(surv, open(path + ".survivors.json", "w"), indent=1)
    return 0


if __name__ == "__main__":
    if len(sys.argv) < 2:
        print(__doc__); sys.exit(2)
    if sys.argv[1] == "list":
        ms = mutants(["core", "macros", "bevy"])
        for m in ms:
            print(f"{m['file']}:{m['line']} {m['op']}: {m['old']}  ->  {m['new']}")
        print(len(ms), "mutants")
    elif sys.argv[1] == "run":
        sys.exit(run(sys.argv[2:]))
    elif sys.argv[1] == "triage":
        sys.exit(triage(sys.argv[2]))
