#!/bin/bash
# usage: seedrun2.sh <patchfile> <label> [checks...]
P=$1; L=$2; shift 2
checks=${@:-C01 C02 C03 C04 C05 C06 C07 C08 C09 C10 C11 C12 C13 C14 C15 C16 C17 C18 C19 C20}
cd /repo && git diff --quiet || { echo "repo dirty"; exit 9; }
git apply $P || { echo "patch does not apply"; exit 8; }
res=""
for c in $checks; do
  out=$(cd /verif && ./vcheck $c quick 2>&1); rc=$?
  case $rc in 0) r=held;; 1) r=VIOLATION;; *) r=inconclusive;; esac
  res="$res $c=$r"
  if [ $rc -eq 1 ]; then echo "$out" | grep -A1 '^VIOLATION' | grep 'what:' | head -1 | cut -c1-260 | sed "s/^/   [$c] /"; fi
  if [ $rc -eq 2 ]; then echo "$out" | grep -E 'INCONCLUSIVE|^error' | head -2 | cut -c1-260 | sed "s/^/   [$c] /"; fi
done
git -C /repo checkout -- .
echo "$L:$res"
