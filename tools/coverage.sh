#!/bin/bash
# Line/region coverage of /repo's core and bevy crates under the quick workloads of the Rust-hosted checks
# (supporting evidence of reach; not a verdict). Uses the nightly toolchain's llvm-tools.
# usage: tools/coverage.sh            -> writes build/cov/summary.txt
set -e
V="$(cd "$(dirname "$0")/.." && pwd)"
COV=$V/build/cov; mkdir -p $COV; rm -f $COV/*.profraw
BIN=$(rustc +nightly --print sysroot)/lib/rustlib/x86_64-unknown-linux-gnu/bin
export CARGO_TARGET_DIR=$COV/target CARGO_NET_OFFLINE=true RUSTFLAGS="-Cinstrument-coverage" VERIF_HOME=$COV/home
mkdir -p $VERIF_HOME; cp $V/KNOWN_FINDINGS.txt $VERIF_HOME/
cargo +nightly build --release --offline --manifest-path $V/harness/Cargo.toml 2>&1 | tail -1
cargo +nightly build --release --offline --manifest-path $V/harness_bevy/Cargo.toml 2>&1 | tail -1
for c in C01 C02 C03 C04 C05 C06 C07 C08 C09 C10 C11 C12 C13 C14; do
  LLVM_PROFILE_FILE=$COV/$c-%p.profraw VERIF_JOBS=4 $COV/target/release/mv $c --tier quick | tail -1
done
for c in C18 C19; do
  LLVM_PROFILE_FILE=$COV/$c-%p.profraw VERIF_JOBS=4 $COV/target/release/mvb $c --tier quick | tail -1
done
$BIN/llvm-profdata merge -sparse $COV/*.profraw -o $COV/all.profdata
$BIN/llvm-cov report --instr-profile=$COV/all.profdata --object $COV/target/release/mv --object $COV/target/release/mvb \
   --ignore-filename-regex='(/root/|/rustc/|/verif/)' 2>/dev/null | grep -E "^/repo|^Filename|^TOTAL|^---" > $COV/summary.txt
cat $COV/summary.txt
