#!/bin/bash
# usage: seedconfirm2.sh <ID>  — round-2 layout: /tmp/mut2/<ID>/out/patch.diff, demo at tests/demo_<ID>.rs or bevy/tests/demo_<ID>.rs
ID=$1; ROOT=${MUTROOT:-/tmp/mut2}; W=$ROOT/$ID
export CARGO_TARGET_DIR=$ROOT/target_shared CARGO_NET_OFFLINE=true
cd $W || exit 9
git checkout -q -- core macros src bevy/src 2>/dev/null
P=$W/out/patch.diff
[ -f $P ] || { echo "$ID: no patch"; exit 8; }
demo=$(ls tests/demo_${ID}*.rs bevy/tests/demo_${ID}*.rs 2>/dev/null | head -1)
[ -n "$demo" ] || { echo "$ID: no demo file"; exit 7; }
case $demo in bevy/*) pkg="-p bevy_mina";; *) pkg="-p mina";; esac
tname=$(basename $demo .rs)
# a target dir shared between worktrees keys its fingerprints on workspace-relative paths and mtimes: touch the
# sources so that nothing built from another worktree is taken for fresh
find core macros src bevy/src -name "*.rs" -exec touch {} +
git apply --check $P || { echo "$ID: patch does not apply"; exit 6; }
if cargo test --offline $pkg --test $tname >$W/out/confirm_without.log 2>&1; then wo=pass; else wo=FAIL; fi
git apply $P
if cargo nextest run --workspace --no-fail-fast --offline -E "not binary(~demo_)" >$W/out/confirm_suite.log 2>&1; then suite=pass; else suite=FAIL; fi
npass=$(grep -c "^ *PASS" $W/out/confirm_suite.log)
if cargo test --offline $pkg --test $tname >$W/out/confirm_with.log 2>&1; then wi=pass; else wi=FAIL; fi
git checkout -q -- core macros src bevy/src
echo "$ID: suite_with_change=$suite($npass passed) demo_with_change=$wi demo_without_change=$wo lines=$(grep -c '^[-+][^-+]' $P)"
