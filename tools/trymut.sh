#!/bin/bash
# usage: trymut.sh <file-in-repo> <sed-expr> <check ids...>   — apply a one-off mutation, run quick checks, revert
f=$1; e=$2; shift 2
cd /repo && git diff --quiet || { echo "repo dirty"; exit 9; }
sed -i "$e" "$f"
if git diff --quiet; then echo "MUTATION DID NOT APPLY"; exit 8; fi
git diff | grep '^[-+]' | grep -v '^+++\|^---'
for id in "$@"; do
  (cd /verif && ./vcheck $id quick | grep -E 'VIOLATION|HELD|VIOLATED|INCONCLUSIVE|KNOWN' | head -4)
done
git checkout -- .
