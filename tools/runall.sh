#!/bin/bash
# usage: tools/runall.sh [quick|thorough] [ids...] — runs the checks sequentially and prints one line each
tier=${1:-quick}; shift
ids=${@:-C01 C02 C03 C04 C05 C06 C07 C08 C09 C10 C11 C12 C13 C14 C15 C16 C17 C18 C19 C20}
cd "$(dirname "$0")/.."
for id in $ids; do
  s=$(date +%s)
  out=$(./vcheck $id $tier 2>&1); rc=$?
  e=$(date +%s)
  echo "$id rc=$rc $((e-s))s :: $(echo "$out" | grep -E 'HELD|VIOLATED|INCONCLUSIVE' | tail -1 | cut -c1-200)"
  echo "$out" | grep -E '^VIOLATION' | head -3
done
