#!/usr/bin/env python3
"""usage: tools/seedprep.py <root> [ids...]
Prepares one scratch worktree of /repo per property under <root>/<ID> with out/PROPERTY.txt: the property record
(title, statement, quantifier, why the tests cannot settle it, anchor files) and one line per seeded change already
known for that property (descriptions of the *changes*, nothing about the checks)."""
import json, os, subprocess, sys, glob

VERIF = os.path.dirname(os.path.dirname(os.path.abspath(__file__)))
root = sys.argv[1]
ids = sys.argv[2:]
props = {}
for l in open(os.path.join(VERIF, "properties.jsonl")):
    d = json.loads(l)
    props[d["id"]] = d
if not ids:
    ids = sorted(props)
known = {}
for m in sorted(glob.glob(os.path.join(VERIF, "seeded", "*", "meta.json"))):
    d = json.load(open(m))
    known.setdefault(d["property"], []).append((d.get("change", ""), d.get("needs_to_manifest", "")))
os.makedirs(root, exist_ok=True)
for pid in ids:
    w = os.path.join(root, pid)
    if not os.path.isdir(w):
        subprocess.check_call(["git", "-C", "/repo", "worktree", "add", "--detach", "-q", w, "HEAD"])
    os.makedirs(os.path.join(w, "out"), exist_ok=True)
    p = props[pid]
    with open(os.path.join(w, "out", "PROPERTY.txt"), "w") as f:
        f.write(f"PROPERTY {pid}: {p['title']}\n\nSTATEMENT\n{p['statement']}\n\n")
        f.write(f"QUANTIFIED OVER\n{p['quantifier']['text']}\n\n")
        f.write(f"WHY THE EXISTING TESTS CANNOT SETTLE IT\n{p['why_tests_cant']}\n\n")
        f.write("ANCHOR FILES\n" + "\n".join(p["anchors"]["files"]) + "\n\n")
        f.write("SEEDED CHANGES ALREADY KNOWN FOR THIS PROPERTY (yours must differ in place and in nature)\n")
        for c, n in known.get(pid, []):
            f.write(f" - {c}  [needs: {n}]\n")
    print(pid, w, len(known.get(pid, [])), "known")
