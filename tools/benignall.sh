#!/bin/bash
# usage: tools/benignall.sh [pattern] [checks...] — false-alarm regression: applies each benign/<id>/patch.diff (a refactoring
# or numerically different re-implementation that preserves all 20 properties) to /repo (which must be clean), runs
# the quick tier of the given checks (default: all 20), reverts, and prints one line per patch.
# Exit status 0 iff no check raised an alarm (rc=1) or became inconclusive on any benign change.
cd "$(dirname "$0")/.."
pat=${1:-.}; shift
checks=${@:-C01 C02 C03 C04 C05 C06 C07 C08 C09 C10 C11 C12 C13 C14 C15 C16 C17 C18 C19 C20}
bad=0
for d in benign/*/; do
  id=$(basename $d)
  echo "$id" | grep -Eq "$pat" || continue
  git -C /repo diff --quiet || { echo "repo dirty"; exit 9; }
  git -C /repo apply "$PWD/${d}patch.diff" || { echo "$id: patch does not apply"; bad=$((bad+1)); continue; }
  res=""
  for c in $checks; do
    out=$(./vcheck $c quick 2>&1); rc=$?
    case $rc in 0) ;; 1) res="$res $c=ALARM"; bad=$((bad+1)); echo "$out" | grep -A1 '^VIOLATION' | grep 'what:' | head -2 | cut -c1-260 | sed "s/^/   [$c] /";; *) res="$res $c=inconclusive"; bad=$((bad+1));; esac
  done
  git -C /repo checkout -- .
  echo "$id:${res:- all held}"
done
echo "benignall: $bad alarms"
[ $bad -eq 0 ]
