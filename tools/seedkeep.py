#!/usr/bin/env python3
"""usage: tools/seedkeep.py <root> <prefix> <evallog> <descriptions.json>
Copies <root>/<ID>/out/{patch.diff,demo.rs,notes.md} to seeded/<prefix>-<ID>/ and writes meta.json from the
confirmation / first-evaluation lines of <evallog> (tools/seedbatch.sh output) and the hand-written descriptions
({ID: {change, needs, strengthening?, after?, not_caught_by_design?, adjudication?}}); also appends a DESIGN table."""
import json, os, re, shutil, sys
VERIF = os.path.dirname(os.path.dirname(os.path.abspath(__file__)))
root, prefix, evallog, descf = sys.argv[1:5]
desc = json.load(open(descf))
confirm, result = {}, {}
for l in open(evallog):
    m = re.match(r"^(C\d\d): (suite_with_change=.*)$", l.strip())
    if m: confirm[m.group(1)] = l.strip()
    m = re.match(rf"^{prefix}-(C\d\d): (.*)$", l.strip())
    if m: result[m.group(1)] = m.group(2)
rows = []
for pid in sorted(k for k in desc if not k.startswith("_")):
    d = desc[pid]
    dst = os.path.join(VERIF, "seeded", f"{prefix}-{pid}")
    os.makedirs(dst, exist_ok=True)
    for f in ("patch.diff", "demo.rs", "notes.md"):
        shutil.copy(os.path.join(root, pid, "out", f), os.path.join(dst, f))
    res = result[pid]
    caught = [x.split("=")[0] for x in res.split() if x.endswith("=VIOLATION")]
    own = pid in caught
    if own: first = "caught by " + " ".join(caught)
    elif caught: first = f"missed by {pid} (caught by {' '.join(caught)})"
    else: first = "missed by every quick check run (" + " ".join(x.split('=')[0] for x in res.split()) + ")"
    meta = {
        "id": f"{prefix}-{pid}", "property": pid, "origin": desc["_origin"],
        "change": d["change"], "needs_to_manifest": d["needs"],
        "confirmed_in_scratch_worktree": confirm[pid],
        "what_i_ran": [f"tools/seedbatch.sh {root} {prefix} {pid}"] + d.get("ran", []),
        "first_evaluation": first,
        "detected_by_quick_checks_first_evaluation": " ".join(caught),
    }
    for k in ("strengthening", "detected_after_strengthening", "not_caught_by_design", "adjudication"):
        if k in d: meta[k] = d[k]
    json.dump(meta, open(os.path.join(dst, "meta.json"), "w"), indent=1)
    cell = " ".join(caught) if caught else "— (none)"
    if not own:
        if d.get("not_caught_by_design"):
            cell += " **not caught at first evaluation; adjudicated as within the float rounding the statement grants — not caught by design**"
        else:
            cell += f" **missed at first evaluation** ({first}); after strengthening: {d.get('detected_after_strengthening','?')} — {d.get('strengthening','')}"
    rows.append(f"| {prefix}-{pid} | {d['change']} | {d['needs']} | {cell} |")
print("\n".join(rows))
