#!/bin/bash
# usage: tools/seedall.sh [pattern] — regression over the stored seeded changes: applies each seeded/<id>/patch.diff
# to /repo (which must be clean), runs the quick tier of the change's own property, reverts, and prints one line.
# Exit status 0 iff every seeded change is caught (rc=1) by its own property's check.
cd "$(dirname "$0")/.."
pat=${1:-.}
miss=0; n=0
for d in seeded/*/; do
  id=$(basename $d)
  echo "$id" | grep -Eq "$pat" || continue
  prop=$(python3 -c "import json;print(json.load(open('$d/meta.json'))['property'])")
  bydesign=$(python3 -c "import json;print(json.load(open('$d/meta.json')).get('not_caught_by_design', False))")
  git -C /repo diff --quiet || { echo "repo dirty"; exit 9; }
  git -C /repo apply "$PWD/${d}patch.diff" || { echo "$id: patch does not apply"; miss=$((miss+1)); continue; }
  out=$(./vcheck $prop quick 2>&1); rc=$?
  git -C /repo checkout -- .
  n=$((n+1))
  if [ $rc -eq 1 ]; then r=caught
  elif [ $rc -eq 0 ] && [ "$bydesign" = "True" ]; then r="not-caught-by-design-see-meta.json-adjudication"
  elif [ $rc -eq 0 ]; then r=MISSED; miss=$((miss+1))
  else r=inconclusive; miss=$((miss+1)); fi
  echo "$id $prop $r :: $(echo "$out" | grep -A1 '^VIOLATION' | grep 'what:' | head -1 | cut -c1-160)"
done
echo "seedall: $n changes, $miss not caught"
[ $miss -eq 0 ]
